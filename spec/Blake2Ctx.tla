------------------------------ MODULE Blake2Ctx ----------------------------
(* Object machine of blake2b::Context<BITS> / ContextDyn and the blake2s twins
   (src/hashing/blake2b.rs, blake2s.rs, blake2/mod.rs): the lazily held last block, the key
   block, the two-word byte counter with its carry rule, the last-block flag; update_mut,
   internal_final, reset, reset_with_key, finalize_reset_with_key transcribed from the Rust.
   Free algebra: message bytes are 1, 2, 3, ...; key byte i of a key is -i; a compress call is
   the term <<block, <<t0, t1>>, last>>; the chaining value is <<kk, list of compress calls>>
   where kk is the key length folded into h[0].
   B = block size, M = 2^W = counter word modulus (small in the model so that the carry into
   the high word is exercised), Keys = key lengths tried. *)
EXTENDS Integers, Sequences, SequencesExt, TLC, Json
CONSTANTS B, M, MaxFed, MaxOps, NCtx, Keys, Lens, Gen
VARIABLES ctx, nops, nextByte, lastOut, hist
vars == <<ctx, nops, nextByte, lastOut, hist>>
Ctxs == 1..NCtx
ZeroN(n) == [i \in 1..n |-> 0]
KeyBytes(k) == [i \in 1..k |-> -i]
Ctr(n) == <<n % M, (n \div M) % M>>                      \* the 2-word value of a byte count

\* ---- RFC 7693 3.3: d = key block (if kk > 0) || message; every block but the last with the
\* running byte count, the last block zero-padded with the total count and the final flag
Std(k, m) ==
  LET d == (IF k > 0 THEN KeyBytes(k) \o ZeroN(B - k) ELSE <<>>) \o m
      n == Len(d)
      nb == IF n = 0 THEN 1 ELSE (n + B - 1) \div B
      dp == d \o ZeroN(nb * B - n)
  IN <<k, [j \in 1..nb |-> <<SubSeq(dp, B * (j - 1) + 1, B * j), Ctr(IF j = nb THEN n ELSE B * j), j = nb>>]>>

\* ---- the code
New(k) == [live |-> TRUE, key |-> k, fed |-> <<>>, kk |-> k, calls |-> <<>>, t |-> <<0, 0>>,
           buf |-> IF k > 0 THEN KeyBytes(k) \o ZeroN(B - k) ELSE ZeroN(B), buflen |-> IF k > 0 THEN B ELSE 0]
Dead == [live |-> FALSE, key |-> 0, fed |-> <<>>, kk |-> 0, calls |-> <<>>, t |-> <<0, 0>>, buf |-> ZeroN(B), buflen |-> 0]
SetBuf(buf, at, bytes) == [i \in 1..B |-> IF i > at /\ i <= at + Len(bytes) THEN bytes[i - at] ELSE buf[i]]
\* Engine::increment_counter: t[0] += inc; t[1] += (t[0] < inc)
Inc(t, inc) == LET t0 == (t[1] + inc) % M IN <<t0, (t[2] + (IF t0 < inc THEN 1 ELSE 0)) % M>>
RECURSIVE Direct(_, _, _)       \* while input.len() > B { increment; compress(input[0..B]); input = input[B..] }
Direct(calls, t, rest) ==
  IF Len(rest) > B THEN LET t1 == Inc(t, B) IN Direct(Append(calls, <<SubSeq(rest, 1, B), t1, FALSE>>), t1, SubSeq(rest, B + 1, Len(rest)))
  ELSE <<calls, t, rest>>
UpdateMutF(s, input) ==
  IF Len(input) = 0 THEN s
  ELSE LET fill == B - s.buflen IN
       IF Len(input) > fill
       THEN LET buf1 == SetBuf(s.buf, s.buflen, SubSeq(input, 1, fill))
                t1 == Inc(s.t, B)
                d == Direct(Append(s.calls, <<buf1, t1, FALSE>>), t1, SubSeq(input, fill + 1, Len(input)))
            IN [s EXCEPT !.calls = d[1], !.t = d[2], !.buf = SetBuf(buf1, 0, d[3]), !.buflen = Len(d[3]), !.fed = s.fed \o input]
       ELSE [s EXCEPT !.buf = SetBuf(s.buf, s.buflen, input), !.buflen = s.buflen + Len(input), !.fed = s.fed \o input]
UpdateBranch(s, len) ==
  IF len = 0 THEN "empty" ELSE
  LET fill == B - s.buflen IN
  IF len > fill THEN (IF s.buflen = B THEN "full" ELSE IF s.buflen = 0 THEN "emptybuf" ELSE "topup") \o (IF len - fill > B THEN "+direct" ELSE "")
  ELSE IF s.buflen + len = B THEN "fill-exact" ELSE "fill"
\* internal_final: counter += buflen, zero the tail, compress with the last flag
Final(s) == <<s.kk, Append(s.calls, <<[i \in 1..B |-> IF i <= s.buflen THEN s.buf[i] ELSE 0], Inc(s.t, s.buflen), TRUE>>)>>

Chunk(len) == [i \in 1..len |-> nextByte + i - 1]
Log(rec) == IF Gen THEN Append(hist, rec) ELSE hist
Tick == nops < MaxOps /\ nops' = nops + 1
Init == /\ \E k \in Keys : ctx = [x \in Ctxs |-> IF x = 1 THEN New(k) ELSE Dead] /\ hist = IF Gen THEN <<[op |-> "new", x |-> 1, key |-> k]>> ELSE <<>>
        /\ nops = 0 /\ nextByte = 1 /\ lastOut = <<>>
Feed(x, len, op) ==
  /\ Tick /\ ctx[x].live /\ Len(ctx[x].fed) + len <= MaxFed
  /\ ctx' = [ctx EXCEPT ![x] = UpdateMutF(ctx[x], Chunk(len))]
  /\ nextByte' = nextByte + len /\ lastOut' = <<>>
  /\ hist' = Log([op |-> op, x |-> x, len |-> len, br |-> UpdateBranch(ctx[x], len)])
Update(x, len) == Feed(x, len, "update")
UpdateMut(x, len) == Feed(x, len, "update_mut")
Out(x) == <<Final(ctx[x]), Std(ctx[x].key, ctx[x].fed)>>
FinBr(x) == IF ctx[x].buflen = B THEN "lastfull" ELSE IF ctx[x].buflen = 0 THEN "lastempty" ELSE "lastpart"
Finalize(x) == /\ Tick /\ ctx[x].live /\ lastOut' = Out(x) /\ ctx' = [ctx EXCEPT ![x] = Dead] /\ UNCHANGED nextByte
               /\ hist' = Log([op |-> "finalize", x |-> x, br |-> FinBr(x)])
FinalizeReset(x) == /\ Tick /\ ctx[x].live /\ lastOut' = Out(x) /\ ctx' = [ctx EXCEPT ![x] = New(0)] /\ UNCHANGED nextByte
                    /\ hist' = Log([op |-> "finalize_reset", x |-> x, br |-> FinBr(x)])
FinalizeResetWithKey(x, k) == /\ Tick /\ ctx[x].live /\ lastOut' = Out(x) /\ ctx' = [ctx EXCEPT ![x] = New(k)] /\ UNCHANGED nextByte
                              /\ hist' = Log([op |-> "finalize_reset_with_key", x |-> x, key |-> k, br |-> FinBr(x)])
Reset(x) == /\ Tick /\ ctx[x].live /\ ctx' = [ctx EXCEPT ![x] = New(0)] /\ lastOut' = <<>> /\ UNCHANGED nextByte
            /\ hist' = Log([op |-> "reset", x |-> x])
ResetWithKey(x, k) == /\ Tick /\ ctx[x].live /\ ctx' = [ctx EXCEPT ![x] = New(k)] /\ lastOut' = <<>> /\ UNCHANGED nextByte
                      /\ hist' = Log([op |-> "reset_with_key", x |-> x, key |-> k])
Clone(x, y) == /\ Tick /\ ctx[x].live /\ ~ctx[y].live /\ ctx' = [ctx EXCEPT ![y] = ctx[x]] /\ lastOut' = <<>> /\ UNCHANGED nextByte
               /\ hist' = Log([op |-> "clone", x |-> x, y |-> y])
Next == \E x \in Ctxs : \/ \E len \in Lens : Update(x, len)
                        \/ \E len \in Lens : UpdateMut(x, len)
                        \/ Finalize(x) \/ FinalizeReset(x) \/ Reset(x)
                        \/ \E k \in Keys : FinalizeResetWithKey(x, k)
                        \/ \E k \in Keys : ResetWithKey(x, k)
                        \/ \E y \in Ctxs \ {x} : Clone(x, y)
Spec == Init /\ [][Next]_vars
\* the compress calls made at finalize are exactly RFC 7693's (block, counter, last) list for key || fed
InvDigest == lastOut # <<>> => lastOut[1] = lastOut[2]
\* the buffer is empty only in a fresh unkeyed context (the last block is always held back)
InvBuf == \A x \in Ctxs : ctx[x].live => /\ ctx[x].buflen <= B
                                       /\ (ctx[x].buflen = 0 => (ctx[x].fed = <<>> /\ ctx[x].key = 0))
\* ---- guided generation ("reuse matrix"): every history  update{0,2} R update{0,2} finalize  on context 1, R any call that re-initialises
\* the context (reset, finalize_reset, and their keyed forms): what the context held when it was re-initialised x what it is fed afterwards.
\* Used as a CONSTRAINT together with EmitReuse (see MacObj.tla for the motivation).
IsUpd(o) == o \in {"update_mut", "new"}                 \* ("new" = the construction record some machines log first)
IsRe(o) == o \in {"reset", "finalize_reset", "reset_with_key", "finalize_reset_with_key"}
ReAt == IF \E i \in 1..Len(hist) : IsRe(hist[i].op) THEN CHOOSE i \in 1..Len(hist) : IsRe(hist[i].op) /\ \A j \in 1..(i - 1) : ~IsRe(hist[j].op) ELSE 0
UpdOnly(p) == Len(p) <= 2 /\ \A i \in 1..Len(p) : IsUpd(p[i].op) /\ p[i].x = 1
ReuseShape == LET k == ReAt IN
              IF k = 0 THEN UpdOnly(hist)
              ELSE /\ UpdOnly(SubSeq(hist, 1, k - 1)) /\ hist[k].x = 1
                   /\ LET a == SubSeq(hist, k + 1, Len(hist)) IN
                      IF Len(a) > 0 /\ a[Len(a)].op = "finalize" THEN a[Len(a)].x = 1 /\ UpdOnly(SubSeq(a, 1, Len(a) - 1)) ELSE UpdOnly(a)
EmitReuse == (Gen /\ ReAt > 0 /\ hist[Len(hist)].op = "finalize") => PrintT(ToJson(<<"GEN", hist>>))
Emit == (Gen /\ nops = MaxOps /\ \E i \in 1..Len(hist) : hist[i].op \in {"finalize", "finalize_reset", "finalize_reset_with_key"})
           => PrintT(ToJson(<<"GEN", hist>>))
=============================================================================
