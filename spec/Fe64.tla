--------------------------------- MODULE Fe64 ---------------------------------
(* The 51-bit-limb field arithmetic of src/curve25519/fe/fe64/mod.rs, transcribed statement by statement: from_bytes, Add, Sub, Neg,
   Mul (the 25 products with the 19x folded terms, the carry chain that leaves r1 un-normalised), square_and_double (as the code
   computes it: square, then doubling with one carry pass), to_packed / to_bytes (two carry_full passes, + 19, carry_full, + 2^255 - 19,
   carry_final, packing by OR).  A limb is a BigNat value (radix-2^13 sub-limbs of arbitrary length); `>> 51` and `& MASK` are ShrB / LowB.
   Two uses, as for Poly1305Donna:
     * refinement: for every program handed to it the canonical bytes after each step equal those of the field specification
       (Fe25519.tla: plain arithmetic modulo 2^255 - 19);
     * case analysis: the carry / wrap branches each step takes are named (`mul_top_carry`, `mul_r0_carry`, `add_top_carry`,
       `sub_top_carry`, `pack_pass2_carry`, `pack_ge_p`, ...); the check requires every class to be reached by the programs it replays on
       the real crate (a class no program reaches is a vacuous run).
   Trace form: one program per history, events [op, d, a, b, bytes] as in the class "feprog" of the harness. *)
EXTENDS Fe25519, Json, IOUtils
Rec == ndJsonDeserialize(IOEnv.TRACE)
VARIABLES hi, l, regs, sregs, ok
vars == <<hi, l, regs, sregs, ok>>

\* ---- bit-granular shifts on BigNat values
ShrB(x, n) == LET q == n \div 13   r == n % 13
                  y == IF Len(x) <= q THEN <<0>> ELSE SubSeq(x, q + 1, Len(x))
              IN IF r = 0 THEN y
                 ELSE [i \in 1..Len(y) |-> (y[i] \div 2 ^ r) + (IF i < Len(y) THEN (y[i + 1] % 2 ^ r) * 2 ^ (13 - r) ELSE 0)]
LowB(x, n) == LET q == n \div 13   r == n % 13   y == PadTo(x, q + 1)
              IN IF r = 0 THEN SubSeq(y, 1, q) ELSE SubSeq(y, 1, q) \o <<y[q + 1] % 2 ^ r>>
NZ(x) == ~IsZeroN(x)
Nineteen == <<19>>
Mask51 == <<8191, 8191, 8191, 4095>>                          \* 2^51 - 1
FourP0 == SubN(<<0, 0, 0, 0, 2>>, <<76>>)                     \* 4 * (2^51 - 19) = 2^53 - 76
FourP1 == SubN(<<0, 0, 0, 0, 2>>, <<4>>)                      \* 4 * (2^51 - 1)  = 2^53 - 4
Lo(x) == LowB(x, 51)
Hi(x) == ShrB(x, 51)

\* ---- from_bytes: five 51-bit windows of the 256 input bits (bit 255 dropped by the last mask)
FromBytes64(b) == LET bits == BitsOf(b) IN [k \in 1..5 |-> LimbsOfBits(SubSeq(bits, 51 * (k - 1) + 1, 51 * k), 4)]
\* ---- Add / Sub / Neg: limb-wise with a carry chain, h0 += 19 * c at the end (h0 not re-normalised)
Chain5(v) ==          \* v: five column values; returns <<limbs, top carry>>
  LET h0 == v[1]                   c0 == Hi(h0)
      h1 == AddN(v[2], c0)         c1 == Hi(h1)
      h2 == AddN(v[3], c1)         c2 == Hi(h2)
      h3 == AddN(v[4], c2)         c3 == Hi(h3)
      h4 == AddN(v[5], c3)         c4 == Hi(h4)
  IN << <<AddN(Lo(h0), MulN(c4, Nineteen)), Lo(h1), Lo(h2), Lo(h3), Lo(h4)>>, c4 >>
LAdd(f, g) == LET r == Chain5([k \in 1..5 |-> AddN(f[k], g[k])]) IN [v |-> r[1], cov |-> IF NZ(r[2]) THEN {"add_top_carry"} ELSE {}]
LSub(f, g) == LET r == Chain5([k \in 1..5 |-> SubN(AddN(f[k], IF k = 1 THEN FourP0 ELSE FourP1), g[k])])
               IN [v |-> r[1], cov |-> IF NZ(r[2]) THEN {"sub_top_carry"} ELSE {"sub_no_top_carry"}]
LNeg(g) == LSub(<<<<0>>, <<0>>, <<0>>, <<0>>, <<0>>>>, g)
\* ---- Mul
Sum(xs) == FoldLeft(LAMBDA acc, x : AddN(acc, x), <<0>>, xs)
LMul(r, s) ==
  LET m(a, b) == MulN(a, b)
      r1 == MulN(r[2], Nineteen)  r2 == MulN(r[3], Nineteen)  r3 == MulN(r[4], Nineteen)  r4 == MulN(r[5], Nineteen)
      t0 == Sum(<<m(r[1], s[1]), m(r4, s[2]), m(r1, s[5]), m(r2, s[4]), m(r3, s[3])>>)
      t1 == Sum(<<m(r[1], s[2]), m(r[2], s[1]), m(r4, s[3]), m(r2, s[5]), m(r3, s[4])>>)
      t2 == Sum(<<m(r[1], s[3]), m(r[3], s[1]), m(r[2], s[2]), m(r4, s[4]), m(r3, s[5])>>)
      t3 == Sum(<<m(r[1], s[4]), m(r[4], s[1]), m(r[2], s[3]), m(r[3], s[2]), m(r4, s[5])>>)
      t4 == Sum(<<m(r[1], s[5]), m(r[5], s[1]), m(r[4], s[2]), m(r[2], s[4]), m(r[3], s[3])>>)
      u1 == AddN(t1, Hi(t0))   u2 == AddN(t2, Hi(u1))   u3 == AddN(t3, Hi(u2))   u4 == AddN(t4, Hi(u3))
      c == Hi(u4)
      z0 == AddN(Lo(t0), MulN(c, Nineteen))
      c0 == Hi(z0)
  IN [v |-> <<Lo(z0), AddN(Lo(u1), c0), Lo(u2), Lo(u3), Lo(u4)>>,
      cov |-> (IF NZ(c) THEN {"mul_top_carry"} ELSE {}) \cup (IF NZ(c0) THEN {"mul_r0_carry"} ELSE {})
              \cup (IF NZ(Hi(AddN(Lo(u1), c0))) THEN {"mul_r1_unnormalised"} ELSE {})]
\* ---- mul_small::<S>: five products by the constant, the same carry chain and tail as Mul
LMulSmall(f, sc) ==
  LET S == <<sc % 8192, sc \div 8192>>
      t0 == MulN(f[1], S)  t1 == MulN(f[2], S)  t2 == MulN(f[3], S)  t3 == MulN(f[4], S)  t4 == MulN(f[5], S)
      u1 == AddN(t1, Hi(t0))   u2 == AddN(t2, Hi(u1))   u3 == AddN(t3, Hi(u2))   u4 == AddN(t4, Hi(u3))
      c == Hi(u4)
      z0 == AddN(Lo(t0), MulN(c, Nineteen))
      c0 == Hi(z0)
  IN [v |-> <<Lo(z0), AddN(Lo(u1), c0), Lo(u2), Lo(u3), Lo(u4)>>,
      cov |-> (IF NZ(c) THEN {"ms_top_carry"} ELSE {}) \cup (IF NZ(c0) THEN {"ms_r0_carry"} ELSE {"ms_no_r0_carry"})]
\* ---- to_packed
CarryFull(t) == LET t1 == AddN(t[2], Hi(t[1]))  t2 == AddN(t[3], Hi(t1))  t3 == AddN(t[4], Hi(t2))  t4 == AddN(t[5], Hi(t3))
                IN << <<AddN(Lo(t[1]), MulN(Hi(t4), Nineteen)), Lo(t1), Lo(t2), Lo(t3), Lo(t4)>>, Hi(t4) >>
CarryFinal(t) == LET t1 == AddN(t[2], Hi(t[1]))  t2 == AddN(t[3], Hi(t1))  t3 == AddN(t[4], Hi(t2))  t4 == AddN(t[5], Hi(t3))
                 IN <<Lo(t[1]), Lo(t1), Lo(t2), Lo(t3), Lo(t4)>>
ToBytes64(t) ==
  LET p1 == CarryFull(t)
      p2 == CarryFull(p1[1])
      a == [p2[1] EXCEPT ![1] = AddN(@, Nineteen)]
      p3 == CarryFull(a)
      b == [k \in 1..5 |-> AddN(p3[1][k], IF k = 1 THEN SubN(<<0, 0, 0, 4096>>, Nineteen) ELSE Mask51)]      \* + (2^51 - 19), + (2^51 - 1) x 4
      f == CarryFinal(b)
      \* packing: out = OR of the limbs at 51-bit strides (limbs are below 2^51 here, so OR = concatenation)
      bitsOf(x) == [i \in 1..51 |-> BitL(PadTo(x, 5), i - 1)]
      all == bitsOf(f[1]) \o bitsOf(f[2]) \o bitsOf(f[3]) \o bitsOf(f[4]) \o bitsOf(f[5])
  IN [bytes |-> BytesOfLimbs(LimbsOfBits(SubSeq(all, 1, 255) \o <<0>>, 20), 32),
      cov |-> (IF NZ(p1[2]) THEN {"pack_pass1_wrap"} ELSE {}) \cup (IF NZ(p2[2]) THEN {"pack_pass2_wrap"} ELSE {})
              \cup (IF NZ(p3[2]) THEN {"pack_ge_p"} ELSE {"pack_lt_p"})]
\* square_and_double as fe64 computes it (see the source: square, then each limb doubled inside the carry chain): value-level it is 2 * a^2;
\* here it is composed from the transcribed Mul and Add, which is how the result's limb bounds arise
LSqD(a) == LET q == LMul(a, a) IN LET d == LAdd(q.v, q.v) IN [v |-> d.v, cov |-> q.cov \cup d.cov]

\* ---- program evaluation: limb registers next to specification registers
Z5 == <<<<0>>, <<0>>, <<0>>, <<0>>, <<0>>>>
One5 == <<<<1>>, <<0>>, <<0>>, <<0>>, <<0>>>>
Has(r, f) == f \in DOMAIN r
StepLimb(rg, e) ==
  LET a == IF Has(e, "a") THEN rg[e.a] ELSE Z5
      b == IF Has(e, "b") THEN rg[e.b] ELSE Z5
  IN CASE e.op = "from_bytes" -> [v |-> FromBytes64(e.bytes), cov |-> {}]
       [] e.op = "add" -> LAdd(a, b)
       [] e.op = "sub" -> LSub(a, b)
       [] e.op = "neg" -> LNeg(a)
       [] e.op = "mul" -> LMul(a, b)
       [] e.op = "square" -> LMul(a, a)
       [] e.op = "mul_small" -> LMulSmall(a, IF Has(e, "nine") /\ e.nine = 1 THEN 9 ELSE 121666)
       [] e.op = "recanon" -> [v |-> FromBytes64(ToBytes64(a).bytes), cov |-> {}]
       [] OTHER -> [v |-> Z5, cov |-> {"skip"}]
StepSpec(rg, e) ==
  LET a == IF Has(e, "a") THEN rg[e.a] ELSE FZero
      b == IF Has(e, "b") THEN rg[e.b] ELSE FZero
  IN CASE e.op = "from_bytes" -> FromBytes(e.bytes)
       [] e.op = "add" -> FAdd(a, b)
       [] e.op = "sub" -> FSub(a, b)
       [] e.op = "neg" -> FNeg(a)
       [] e.op = "mul" -> FMul(a, b)
       [] e.op = "square" -> FSq(a)
       [] e.op = "mul_small" -> FMulSmall(a, IF Has(e, "nine") /\ e.nine = 1 THEN 9 ELSE 121666)
       [] e.op = "recanon" -> a
       [] OTHER -> FZero
Modelled(e) == e.op \in {"from_bytes", "add", "sub", "neg", "mul", "square", "mul_small", "recanon"}
CovNames == <<"add_top_carry", "sub_top_carry", "sub_no_top_carry", "mul_top_carry", "mul_r0_carry", "mul_r1_unnormalised", "ms_top_carry", "ms_r0_carry", "ms_no_r0_carry", "pack_pass1_wrap", "pack_pass2_wrap",
              "pack_ge_p", "pack_lt_p">>
CovSeq(S) == SelectSeq(CovNames, LAMBDA n : n \in S)
Init == hi \in 1..Len(Rec) /\ l = 1 /\ regs = <<Z5, One5, Z5, One5>> /\ sregs = <<FZero, FOne, FZero, FOne>> /\ ok = TRUE
Step == /\ ok /\ l <= Len(Rec[hi].ev)
        /\ LET h == Rec[hi]
               e == h.ev[l]
           IN IF ~Modelled(e)
              THEN /\ UNCHANGED <<regs, sregs, ok>>
                   /\ IF l = Len(h.ev) THEN PrintT(ToJson(<<"DONE", h.id, l>>)) ELSE TRUE
              ELSE LET r == StepLimb(regs, e)
                       sv == StepSpec(sregs, e)
                       tb == ToBytes64(r.v)
                       good == tb.bytes = ToBytes(sv)
                   IN /\ regs' = [regs EXCEPT ![e.d] = r.v] /\ sregs' = [sregs EXCEPT ![e.d] = sv] /\ ok' = good
                      /\ PrintT(ToJson(<<"COV", h.id, CovSeq(r.cov \cup tb.cov)>>))
                      /\ IF good THEN TRUE ELSE PrintT(ToJson(<<"BAD", h.id, l, [k |-> "v", v |-> ToBytes(sv)], [k |-> "v", v |-> tb.bytes]>>))
                      /\ IF good /\ l = Len(h.ev) THEN PrintT(ToJson(<<"DONE", h.id, l>>)) ELSE TRUE
        /\ l' = l + 1 /\ UNCHANGED hi
Spec == Init /\ [][Step]_vars
=============================================================================
