------------------------------ MODULE TraceMac -----------------------------
(* Trace validation for the MAC objects (Hmac<D>, Poly1305, keyed BLAKE2b/BLAKE2s through the
   Mac trait) and the legacy Digest objects (properties C05, C08, C09).
   Abstract state of an object = the key it authenticates with, the bytes fed since
   construction or the last reset, and whether a result has been taken (and which).
   Contract (C09):  input in phase "done" must fail loudly;  result/raw_result in phase "done"
   must return the same bytes again or fail loudly;  reset returns the object to a fresh one
   with the construction key and parameters;  every value returned is the MAC / digest of
   the bytes fed since then, as defined by HMAC.tla / Poly1305.tla / Blake2.tla / Hashes.tla. *)
EXTENDS HMAC, Poly1305, Json, IOUtils
Rec == ndJsonDeserialize(IOEnv.TRACE)
VARIABLES hi, l, st, ok, res      \* res: the specification's answer for the event just consumed (evaluated once per step)
vars == <<hi, l, st, ok, res>>
Has(r, f) == f \in DOMAIN r
V(b) == [k |-> "v", v |-> b]
N == [k |-> "n", v |-> <<>>]
P == [k |-> "p", v |-> <<>>]
NSlot == 4
KeyOf(h) == IF Has(h, "key") THEN h.key ELSE <<>>
Kind(h) == IF h.cls = "digest" THEN "digest" ELSE h.mac
HD(h) == [alg |-> h.alg, outlen |-> IF Has(h, "outlen") THEN h.outlen ELSE 0]
B2(alg, key, outlen, msg) == Digest(alg, key, outlen, IF alg = "blake2b" THEN Zeros(8) ELSE Zeros(4), msg)
Value(h, key, fed) ==
  CASE Kind(h) = "hmac" -> Hmac(HD(h), key, fed)
    [] Kind(h) = "poly1305" -> Poly1305Mac(key, fed)
    [] Kind(h) \in {"blake2b", "blake2s"} -> B2(Kind(h), key, h.outlen, fed)
    [] Kind(h) = "digest" -> IF IsBlake(h.alg) THEN B2(h.alg, key, h.outlen, fed) ELSE H(h.alg, fed)
OutBytes(h) ==
  CASE Kind(h) = "hmac" -> HOut(HD(h))
    [] Kind(h) = "poly1305" -> 16
    [] Kind(h) \in {"blake2b", "blake2s"} -> h.outlen
    [] Kind(h) = "digest" -> IF IsBlake(h.alg) THEN h.outlen ELSE FixedOutLen(h.alg)
HexDigit(n) == IF n < 10 THEN 48 + n ELSE 87 + n
HexOf(b) == [i \in 1..(2 * Len(b)) |-> IF i % 2 = 1 THEN HexDigit(b[(i + 1) \div 2] \div 16) ELSE HexDigit(b[i \div 2] % 16)]
LegalNew(h) ==
  CASE Kind(h) \in {"blake2b", "blake2s"} -> h.outlen >= 1 /\ h.outlen <= MaxOut(Kind(h)) /\ Len(KeyOf(h)) <= MaxKey(Kind(h))
    [] Kind(h) = "digest" /\ IsBlake(h.alg) -> h.outlen >= 1 /\ h.outlen <= MaxOut(h.alg) /\ Len(KeyOf(h)) <= MaxKey(h.alg)
    [] OTHER -> TRUE
Dead == [live |-> FALSE, key |-> <<>>, fed |-> <<>>, done |-> FALSE, val |-> <<>>]
FreshObj(key) == [live |-> TRUE, key |-> key, fed |-> <<>>, done |-> FALSE, val |-> <<>>]
Fresh(h) == [x \in 1..NSlot |-> IF x = 1 /\ LegalNew(h) THEN FreshObj(KeyOf(h)) ELSE Dead]

\* Apply returns the new state and the SET of outcomes the property allows
Apply(h, s, e) ==
  LET x == IF Has(e, "x") THEN e.x ELSE 1
      c == s[x]
      take(f(_)) == IF c.done THEN [st |-> s, outs |-> {V(f(c.val)), P}]
                 ELSE LET v == Value(h, c.key, c.fed) IN [st |-> [s EXCEPT ![x].done = TRUE, ![x].val = v], outs |-> {V(f(v))}]
  IN CASE e.op = "new" -> [st |-> s, outs |-> {IF LegalNew(h) THEN N ELSE P}]
       [] e.op \in {"input", "input_str"} ->
            IF c.done THEN [st |-> s, outs |-> {P}] ELSE [st |-> [s EXCEPT ![x].fed = c.fed \o e.data], outs |-> {N}]
       [] e.op = "raw_result" /\ Has(e, "n") /\ Has(h, "mac") /\ h.mac = "poly1305" ->                   \* into a caller's buffer of n bytes (pre-filled with 0xa5): Poly1305 writes the first 16 and needs at least 16
            IF e.n < 16 THEN [st |-> s, outs |-> {P}] ELSE take(LAMBDA v : v \o [i \in 1..(e.n - Len(v)) |-> 165])
       [] e.op \in {"result", "raw_result"} -> take(LAMBDA v : v)
       [] e.op = "result_str" -> take(HexOf)
       [] e.op = "reset" -> [st |-> [s EXCEPT ![x] = FreshObj(c.key)], outs |-> {N}]
       [] e.op = "reset_with_key" -> [st |-> [s EXCEPT ![x] = FreshObj(e.key)], outs |-> {N}]
       [] e.op = "clone" -> [st |-> [s EXCEPT ![e.y] = c], outs |-> {N}]
       [] e.op = "output_bytes" -> [st |-> s, outs |-> {V(<<OutBytes(h)>>)}]
       [] e.op = "output_bits" -> [st |-> s, outs |-> {V(<<(OutBytes(h) * 8) \div 256, (OutBytes(h) * 8) % 256>>)}]
       [] e.op = "block_size" -> [st |-> s, outs |-> {V(<<BlockSize(h.alg)>>)}]

Init == hi \in 1..Len(Rec) /\ l = 1 /\ st = Fresh(Rec[hi]) /\ ok = TRUE /\ res = <<>>
Step == /\ ok /\ l <= Len(Rec[hi].ev)
        /\ res' = Apply(Rec[hi], st, Rec[hi].ev[l])
        /\ LET h == Rec[hi]
               e == h.ev[l]
               good == \E o \in res'.outs : e.out.k = o.k /\ e.out.v = o.v
           IN /\ st' = IF good THEN res'.st ELSE st
              /\ ok' = good
              /\ IF good THEN TRUE ELSE PrintT(ToJson(<<"BAD", h.id, l, CHOOSE o \in res'.outs : o.k # "p" \/ res'.outs = {P}, e.out>>))
              /\ IF good /\ l = Len(h.ev) THEN PrintT(ToJson(<<"DONE", h.id, l>>)) ELSE TRUE
        /\ l' = l + 1 /\ UNCHANGED hi
Spec == Init /\ [][Step]_vars
=============================================================================
