----------------------------- MODULE TraceEquiv -----------------------------
(* K-trace product for the configuration properties (C16: instruction-set builds; C17: limb
   back-ends; C20: build profiles).  The same operation script was executed by K differently
   compiled harness binaries; the orchestrator zips the K observation traces event by event:
   one history per line, {id, tags: <<build names>>, ev: <<[op, outs: <<out_1, .., out_K>>]>>}.
   The product machine advances all K copies in lock-step and its only invariant is the
   2-safety property itself: at every step all copies made the same observation (same outcome
   class - value / no value / panic / crash - and the same bytes).  Which value is the right one
   is not decided here (the functional trace specifications do that on the same traces); this
   module decides "bit-identical whatever the configuration".
   One line is printed per history: ["DONE", id, events] or
   ["BAD", id, position, <<tag_1, out_1>>, <<tag_j, out_j>>] for the first disagreeing copy j. *)
EXTENDS Integers, Sequences, TLC, Json, IOUtils
Rec == ndJsonDeserialize(IOEnv.TRACE)
VARIABLES hi, l, ok
vars == <<hi, l, ok>>
Same(a, b) == a.k = b.k /\ a.v = b.v
Agree(outs) == \A j \in 2..Len(outs) : Same(outs[1], outs[j])
FirstBad(outs) == CHOOSE j \in 2..Len(outs) : ~Same(outs[1], outs[j]) /\ \A i \in 2..(j - 1) : Same(outs[1], outs[i])
Init == hi \in 1..Len(Rec) /\ l = 1 /\ ok = TRUE
Step == /\ ok /\ l <= Len(Rec[hi].ev)
        /\ LET h == Rec[hi]
               outs == h.ev[l].outs
               good == Len(outs) = Len(h.tags) /\ Agree(outs)
           IN /\ ok' = good
              /\ IF good THEN TRUE
                 ELSE LET j == FirstBad(outs) IN PrintT(ToJson(<<"BAD", h.id, l, <<h.tags[1], outs[1]>>, <<h.tags[j], outs[j]>> >>))
              /\ IF good /\ l = Len(h.ev) THEN PrintT(ToJson(<<"DONE", h.id, l>>)) ELSE TRUE
        /\ l' = l + 1 /\ UNCHANGED hi
Spec == Init /\ [][Step]_vars
=============================================================================
