-------------------------------- MODULE HMAC -------------------------------
(* RFC 2104 HMAC over any hash of Hashes.tla, RFC 5869 HKDF, RFC 8018 PBKDF2.
   The block size B and output length L of each hash are the ones the crate's legacy Digest
   objects report: SHA-3/Keccak use their sponge rate, BLAKE2b 128, BLAKE2s 64.
   A hash is named by a record [alg, outlen] (outlen only matters for BLAKE2). *)
EXTENDS Hashes
HOut(hd) == IF IsBlake(hd.alg) THEN hd.outlen ELSE FixedOutLen(hd.alg)
HH(hd, m) == Digest(hd.alg, <<>>, HOut(hd), IF hd.alg = "blake2b" THEN Zeros(8) ELSE IF hd.alg = "blake2s" THEN Zeros(4) ELSE <<>>, m)
HBlock(hd) == BlockSize(hd.alg)
HmacKey(hd, key) == LET k0 == IF Len(key) > HBlock(hd) THEN HH(hd, key) ELSE key IN k0 \o Zeros(HBlock(hd) - Len(k0))
Hmac(hd, key, msg) ==
  LET k == HmacKey(hd, key)
      ipad == TLCEval([i \in 1..Len(k) |-> k[i] ^^ 54])
      opad == TLCEval([i \in 1..Len(k) |-> k[i] ^^ 92])
  IN HH(hd, opad \o HH(hd, ipad \o msg))
\* RFC 5869
HkdfExtract(hd, salt, ikm) == Hmac(hd, salt, ikm)
HkdfExpand(hd, prk, info, L) ==          \* L <= 255 * HashLen
  LET n == (L + HOut(hd) - 1) \div HOut(hd)
      step(acc, i) == LET t == Hmac(hd, prk, acc[1] \o info \o <<i>>) IN <<t, acc[2] \o t>>
  IN SubSeq(FoldLeft(step, <<<<>>, <<>>>>, Rng(1, n))[2], 1, L)
\* RFC 8018 5.2 with PRF = HMAC-hd; c >= 1; block index as 4 big-endian bytes
Int4BE(i) == <<(i \div 16777216) % 256, (i \div 65536) % 256, (i \div 256) % 256, i % 256>>          \* INT(i), i < 2^31 here
PbkdfBlock(hd, pw, salt, c, i) ==         \* T_i = U_1 xor ... xor U_c
  LET u1 == Hmac(hd, pw, salt \o Int4BE(i))
      it(acc, j) == LET u == Hmac(hd, pw, acc[1]) IN <<u, XorBytes(acc[2], u)>>
  IN FoldLeft(it, <<u1, u1>>, Rng(2, c))[2]
Pbkdf2(hd, pw, salt, c, dkLen) ==
  LET hl == HOut(hd)
      n == (dkLen + hl - 1) \div hl
  IN SubSeq(FoldLeft(LAMBDA acc, i: acc \o PbkdfBlock(hd, pw, salt, c, i), <<>>, Rng(1, n)), 1, dkLen)
=============================================================================
