CONSTANTS W = 8  Derived = "swap"  Bytes = {0, 1, 2, 127, 128, 129, 254, 255}
INIT InitArr
NEXT Next
INVARIANT InvArr
INVARIANT InvSelect
INVARIANT InvChoice
CHECK_DEADLOCK FALSE
