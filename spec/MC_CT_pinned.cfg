CONSTANTS W = 8  Derived = "swap"  Bytes = {0}
INIT Init
NEXT Next
INVARIANT InvWord
INVARIANT InvDerived
CHECK_DEADLOCK FALSE
