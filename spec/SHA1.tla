------------------------------- MODULE SHA1 --------------------------------
(* FIPS 180-4 section 6.1 (SHA-1), written from the standard. *)
EXTENDS Words
H1 == << <<26437,8961>>, <<61389,43913>>, <<39098,56574>>, <<4146,21622>>, <<50130,57840>> >>
K1(t) == IF t <= 20 THEN <<23170,31129>> ELSE IF t <= 40 THEN <<28377,60321>> ELSE IF t <= 60 THEN <<36635,48348>> ELSE <<51810,49622>>    \* t in 1..80
F1(t, b, c, d) == IF t <= 20 THEN Xor32(And32(b, c), And32(Not32(b), d))
                  ELSE IF t <= 40 THEN Xor32(Xor32(b, c), d)
                  ELSE IF t <= 60 THEN Xor32(Xor32(And32(b, c), And32(b, d)), And32(c, d))
                  ELSE Xor32(Xor32(b, c), d)
Compress1(h, blk) ==
  LET w0 == WordsBE32(blk)
      w == FoldLeft(LAMBDA acc, i: Append(acc, Rotl32(Xor32(Xor32(acc[i-3], acc[i-8]), Xor32(acc[i-14], acc[i-16])), 1)), w0, Rng(17, 80))
      rnd(s, t) == LET T == Add32(Add32(Add32(Rotl32(s[1], 5), F1(t, s[2], s[3], s[4])), Add32(s[5], K1(t))), w[t])
                   IN <<T, s[1], Rotl32(s[2], 30), s[3], s[4]>>
      s == FoldLeft(rnd, h, Rng(1, 80))
  IN TLCEval([i \in 1..5 |-> Add32(h[i], s[i])])
Pad1(msg) == LET n == Len(msg) IN msg \o <<128>> \o Zeros((119 - n) % 64) \o BitLenBE(n, 8)
Sha1Off(msg, off) == BytesOfBE32(FoldLeft(Compress1, H1, Blocks(msg \o <<128>> \o Zeros((119 - Len(msg)) % 64) \o LenFieldBE(off, Len(msg), 8), 64)))
Sha1(msg) == BytesOfBE32(FoldLeft(Compress1, H1, Blocks(Pad1(msg), 64)))
=============================================================================
