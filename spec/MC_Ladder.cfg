CONSTANTS Q = 31  A = 6  NBits = 6
INIT Init
NEXT Next
INVARIANT InvResult
CHECK_DEADLOCK FALSE
