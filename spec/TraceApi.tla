------------------------------ MODULE TraceApi ------------------------------
(* Trace validation of outcome classes against the argument-shape domain (property C20).
   An event that probes an entry point carries the shape it was built from in its field "api"
   ([entry, v, a, b, c, d], see ApiDomain.tla).  The call must return normally (a value, or nothing) exactly
   when ApiDomain!Legal holds for the shape, and must be refused (panic, or Err logged as refusal) otherwise.
   Events without an "api" field are the set-up steps of the history: they must return normally.
   A crash (death by signal) is never acceptable.  Which *value* a legal call returns is decided by the
   functional trace specifications on the same traces, and "same bytes in every profile" by TraceEquiv. *)
EXTENDS ApiDomain, IOUtils
Rec == ndJsonDeserialize(IOEnv.TRACE)
VARIABLES hi, l, ok
vars == <<hi, l, ok>>
Has(r, f) == f \in DOMAIN r
Class(o) == IF o.k \in {"v", "n"} THEN "ok" ELSE IF o.k = "p" THEN "refuse" ELSE "crash"
Expected(e) == IF Has(e, "api") THEN (IF Legal(e.api) THEN "ok" ELSE "refuse") ELSE "ok"
TInit == hi \in 1..Len(Rec) /\ l = 1 /\ ok = TRUE /\ s = 0 /\ done = FALSE      \* s, done: the generator's variables, unused here
TStep == /\ ok /\ l <= Len(Rec[hi].ev)
         /\ LET h == Rec[hi]
                e == h.ev[l]
                good == Class(e.out) = Expected(e)
            IN /\ ok' = good
               /\ IF good THEN TRUE ELSE PrintT(ToJson(<<"BAD", h.id, l, [k |-> Expected(e), v |-> <<>>], e.out>>))
               /\ IF good /\ l = Len(h.ev) THEN PrintT(ToJson(<<"DONE", h.id, l>>)) ELSE TRUE
         /\ l' = l + 1 /\ UNCHANGED <<hi, s, done>>
=============================================================================
