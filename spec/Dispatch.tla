------------------------------ MODULE Dispatch ------------------------------
(* Object machine of the SHA-256 block dispatch (property C16): the compile-time selection in
   hashing/sha2/impl256/mod.rs digest_block and the batching loops of avx.rs (8 blocks at a
   time, then hands the rest to sse41), sse41.rs (4 blocks at a time, then hands the rest to
   the reference code) and reference.rs (one block at a time), underneath FixedBuffer::input
   (cryptoutil.rs), which calls digest_block once with the completed buffer and once with
   *all* whole blocks of the caller's slice.  Transcribed from the Rust control flow.
   Data is a free algebra as in MDCtx: message bytes are 1, 2, 3, ... in feeding order; a
   batch is the tuple of lanes gathered from the slice (lane j of an N-way message schedule
   reads the bytes at j*B .. j*B+B-1 of the slice: message_schedule_4ways / _8ways), and the
   per-lane compressions are applied in lane order (compress_once!(0) .. (N-1)).
   Property (refinement of "compress the blocks one after the other"): whatever the level
   the crate was compiled for and however the message is cut into update calls, the list of
   compressed blocks is Chop(fed), the buffer holds the rest and is never full. *)
EXTENDS Integers, Sequences, SequencesExt, FiniteSets, TLC
CONSTANTS B,          \* block size (bytes) of the model
          Level,      \* "ref" | "sse41" | "avx": what impl256::digest_block dispatches to
          Lens,       \* lengths of the update calls explored
          MaxOps, MaxFed
VARIABLES buf, comp, fed, nops, last
vars == <<buf, comp, fed, nops, last>>

Lanes(n, bytes) == [j \in 1..n |-> SubSeq(bytes, (j - 1) * B + 1, j * B)]
Rest(n, bytes) == SubSeq(bytes, n * B + 1, Len(bytes))
RECURSIVE Ref(_), Sse(_), Avx(_)
\* reference::digest_block: for every 64-byte chunk of the slice, one compression
Ref(bytes) == IF Len(bytes) < B THEN <<>>
              ELSE <<[kind |-> "ref1", lanes |-> Lanes(1, bytes)]>> \o Ref(Rest(1, bytes))
\* sse41::digest_block: while block.len() >= 256 { schedule 4 ways; compress 4 ways }; if block.len() > 0 { reference }
Sse(bytes) == IF Len(bytes) >= 4 * B
              THEN <<[kind |-> "sse4", lanes |-> Lanes(4, bytes)]>> \o Sse(Rest(4, bytes))
              ELSE IF Len(bytes) > 0 THEN Ref(bytes) ELSE <<>>
\* avx::digest_block: while block.len() >= 512 { schedule 8 ways; compress 8 ways }; sse41::digest_block(rest)
Avx(bytes) == IF Len(bytes) >= 8 * B
              THEN <<[kind |-> "avx8", lanes |-> Lanes(8, bytes)]>> \o Avx(Rest(8, bytes))
              ELSE Sse(bytes)
DigestBlock(bytes) == CASE Level = "ref" -> Ref(bytes) [] Level = "sse41" -> Sse(bytes) [] Level = "avx" -> Avx(bytes)
Flat(h) == FoldLeft(LAMBDA a, b : a \o b, <<>>, h)
BlocksOf(batches) == Flat([i \in 1..Len(batches) |-> batches[i].lanes])
Kinds(batches) == {batches[i].kind : i \in 1..Len(batches)}

\* FixedBuffer::input as in MDCtx.Input, but handing the slices to DigestBlock; returns the batches of this call
InputBatches(chunk) ==
  LET idx == Len(buf) IN
  IF idx # 0 /\ Len(chunk) < B - idx THEN [b |-> buf \o chunk, batches |-> <<>>]
  ELSE LET i0 == IF idx # 0 THEN B - idx ELSE 0
           first == IF idx # 0 THEN DigestBlock(buf \o SubSeq(chunk, 1, i0)) ELSE <<>>
           rem == Len(chunk) - i0
           nb == IF rem >= B THEN rem \div B ELSE 0
           bulk == IF nb > 0 THEN DigestBlock(SubSeq(chunk, i0 + 1, i0 + nb * B)) ELSE <<>>
       IN [b |-> SubSeq(chunk, i0 + nb * B + 1, Len(chunk)), batches |-> first \o bulk]

Init == buf = <<>> /\ comp = <<>> /\ fed = <<>> /\ nops = 0 /\ last = {}
Update(len) ==
  /\ nops < MaxOps /\ Len(fed) + len <= MaxFed
  /\ LET chunk == [i \in 1..len |-> Len(fed) + i]
         r == InputBatches(chunk)
     IN /\ buf' = r.b /\ comp' = comp \o BlocksOf(r.batches) /\ fed' = fed \o chunk
        /\ last' = Kinds(r.batches)
  /\ nops' = nops + 1
\* the same step, split by which code paths one call went through (vacuity guard: every path must be taken)
UpdNone == \E len \in Lens : Update(len) /\ last' = {}
UpdRef  == \E len \in Lens : Update(len) /\ last' = {"ref1"}
UpdSse  == \E len \in Lens : Update(len) /\ "sse4" \in last' /\ "avx8" \notin last'
UpdAvx  == \E len \in Lens : Update(len) /\ "avx8" \in last' /\ last' # {"avx8", "sse4", "ref1"}
UpdAll  == \E len \in Lens : Update(len) /\ last' = {"avx8", "sse4", "ref1"}
Next == UpdNone \/ UpdRef \/ UpdSse \/ UpdAvx \/ UpdAll
Spec == Init /\ [][Next]_vars

Chop(s) == [k \in 1..(Len(s) \div B) |-> SubSeq(s, B * (k - 1) + 1, B * k)]
\* batching refines block-by-block compression of the fed stream
InvSequential == comp = Chop(fed) /\ Len(buf) < B /\ Flat(comp) \o buf = fed
\* a level never uses a wider path than it was compiled with
InvLevel == /\ (Level = "ref" => last \subseteq {"ref1"})
            /\ (Level = "sse41" => last \subseteq {"ref1", "sse4"})
=============================================================================
