CONSTANTS B = 4  K = 3  MaxSub = 2
INIT Init
NEXT Next
INVARIANT InvValue
INVARIANT InvTwoSubtractions
CHECK_DEADLOCK FALSE
