CONSTANTS B = 4  M = 4  Carry = FALSE  MaxOps = 5  NCtx = 2  Lens = {0, 1, 3, 4, 5, 9}  Seeks = {0, 1, 3}  DrgFill = "overwrite"  Gen = FALSE
INIT Init
NEXT Next
INVARIANT InvOut
INVARIANT InvPos
CHECK_DEADLOCK FALSE
