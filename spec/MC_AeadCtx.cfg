CONSTANTS Q = 4  MaxOps = 8  MaxLen = 9  Lens = {0, 1, 3, 4, 5}  Gen = FALSE
INIT Init
NEXT Next
INVARIANT InvOut
INVARIANT InvLens
CHECK_DEADLOCK FALSE
