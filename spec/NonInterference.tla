-------------------------- MODULE NonInterference --------------------------
(* Property C19 as a 2-safety property, by self-composition: two copies of a victim run on the same public
   input with different secrets; the only observable of a copy is the sequence of program-counter labels it
   executes; the product advances both copies one instruction at a time and its invariant is that they are at
   the same label (and finish together).  The victims are the four control-flow idioms the crate relies on,
   each in its constant-time form (Form = "ct", as in the source) and in the realistic leaky form a regression
   would introduce (Form = "leaky"), abstracted to their branching skeleton:
     compare : OR-accumulate all byte differences            | return at the first differing byte
     ladder  : per scalar bit: masked swap, step, masked swap | per scalar bit: branch on the bit around the swap
     lookup  : scan all table entries with masked assignment  | stop scanning at the matching entry
     reduce  : compute h - p always, select by mask           | subtract only if h >= p
   TLC checks all pairs of secrets x all public inputs at small sizes: Form = "ct" satisfies Lockstep, and for
   Form = "leaky" TLC must report a violation (./check selftest).  The same product, with the labels replaced
   by digests of 4096 real instruction addresses recorded by ct/pctrace.c, is what TraceEquiv validates on the
   compiled crate: NonInterference is the design-level statement, TraceEquiv the conformance step. *)
EXTENDS Integers, Sequences, TLC
CONSTANTS Form, N, Vals      \* N: length / bits / table size; Vals: byte alphabet
VARIABLES victim, pub, sec, i
vars == <<victim, pub, sec, i>>
Victims == {"compare", "ladder", "lookup", "reduce"}
Secrets(v) == CASE v = "compare" -> [1..N -> Vals]            \* the secret tag
                [] v = "ladder" -> [1..N -> {0, 1}]             \* the scalar bits
                [] v = "lookup" -> 1..N                          \* the secret index
                [] v = "reduce" -> 0..(2 * N)                    \* the accumulator before the final reduction modulo N + 1
Publics(v) == IF v = "compare" THEN [1..N -> Vals] ELSE {<<>>}  \* the candidate tag

RECURSIVE CmpLeaky(_, _, _)
CmpLeaky(a, b, k) == IF k > N THEN <<"ret_eq">>
                     ELSE IF a[k] # b[k] THEN <<"cmp", "ret_ne">> ELSE <<"cmp">> \o CmpLeaky(a, b, k + 1)
Rep(n, s) == [k \in 1..(n * Len(s)) |-> s[((k - 1) % Len(s)) + 1]]
RECURSIVE LadLeaky(_, _)
LadLeaky(bits, k) == IF k > N THEN <<"finish">>
                     ELSE (IF bits[k] = 1 THEN <<"test", "swap", "step", "swap">> ELSE <<"test", "step">>) \o LadLeaky(bits, k + 1)
Trace(v, p, s) ==
  CASE v = "compare" -> IF Form = "ct" THEN Rep(N, <<"xor_or">>) \o <<"ct_zero", "ret">> ELSE CmpLeaky(s, p, 1)
    [] v = "ladder"  -> IF Form = "ct" THEN Rep(N, <<"cswap", "step", "cswap">>) \o <<"finish">> ELSE LadLeaky(s, 1)
    [] v = "lookup"  -> IF Form = "ct" THEN Rep(N, <<"ct_eq", "maybe_set">>) \o <<"ret">> ELSE Rep(s, <<"test">>) \o <<"load", "ret">>
    [] v = "reduce"  -> IF Form = "ct" THEN <<"sub_p", "mask", "select", "ret">> ELSE (IF s >= N + 1 THEN <<"cmp", "sub_p", "ret">> ELSE <<"cmp", "ret">>)

Init == /\ victim \in Victims /\ i = 1
        /\ \E v \in Victims : victim = v /\ pub \in Publics(v) /\ sec \in Secrets(v) \X Secrets(v)
T(c) == Trace(victim, pub, sec[c])
Next == /\ i <= Len(T(1)) /\ i <= Len(T(2)) /\ i' = i + 1 /\ UNCHANGED <<victim, pub, sec>>
Spec == Init /\ [][Next]_vars
\* both copies are at the same label at every step, and neither finishes before the other
Lockstep == /\ (i <= Len(T(1)) /\ i <= Len(T(2))) => T(1)[i] = T(2)[i]
            /\ (i > Len(T(1))) = (i > Len(T(2)))
=============================================================================
