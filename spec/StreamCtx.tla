------------------------------- MODULE StreamCtx ----------------------------
(* Object machine of the stream cipher contexts ChaCha<R>, XChaCha<R>, ChaChaOriginal<R>,
   Salsa<R>, XSalsa<R> (src/chacha20.rs, src/salsa20.rs) and of drg::chacha::Drg<R>:
   engine block counter, cached keystream block `output`, `offset` in 0..B; process_mut's
   refill loop, process (= copy + process_mut), seek, clone, and the two counter disciplines
   (Carry = FALSE: one word wrapping modulo M, the word above it is nonce and must not move;
    Carry = TRUE: two words with carry).
   Bytes are elements of GF(2)-vector space over atoms, represented as sets of atoms with
   symmetric difference as XOR: input byte n is {<<"d", n>>}, keystream byte i of the block
   whose counter words are c is {<<"k", c, i>>}.  With XOR cancelling, the involution
   "processing twice from the same position restores the input" is checkable structurally.
   History variable pos[x] = absolute position <<block index, byte offset>> since the last
   seek / creation; the specification of every output is position-indexed keystream.
   DrgFill selects what Drg::fill_* does with the destination's previous content:
   "xor" (the pinned code) or "overwrite" (what the property demands). *)
EXTENDS Integers, Sequences, SequencesExt, FiniteSets, TLC, Json
CONSTANTS B, M, Carry, MaxOps, NCtx, Lens, Seeks, DrgFill, Gen
VARIABLES ctx, nops, nextByte, lastOut, hist
vars == <<ctx, nops, nextByte, lastOut, hist>>
Ctxs == 1..NCtx
Xor(a, b) == (a \ b) \cup (b \ a)
XorSeq(a, b) == [i \in 1..Len(a) |-> Xor(a[i], b[i])]
\* counter words of block index b (b counted from the position set by new/seek: start word s)
Words(s, b) == IF Carry THEN <<(s[1] + b) % M, (s[2] + ((s[1] + b) \div M)) % M>> ELSE <<(s[1] + b) % M, s[2]>>
KSByte(c, i) == {<<"k", c, i>>}                                  \* byte i (1..B) of the block with counter words c
KSBlock(c) == [i \in 1..B |-> KSByte(c, i)]
IncW(c) == IF Carry THEN (IF (c[1] + 1) % M = 0 THEN <<0, (c[2] + 1) % M>> ELSE <<c[1] + 1, c[2]>>)     \* increment64
           ELSE <<(c[1] + 1) % M, c[2]>>                                                                  \* increment
\* ---- specification: byte j (0-based) after position p = <<start words, block index, offset>>
SpecKS(p, j) == LET t == p[3] + j IN KSByte(Words(p[1], p[2] + (t \div B)), (t % B) + 1)
SpecOut(p, data) == [j \in 1..Len(data) |-> Xor(data[j], SpecKS(p, j - 1))]
AdvancePos(p, n) == LET t == p[3] + n IN <<p[1], p[2] + (t \div B), t % B>>
\* ---- the code: ChaCha::new -> offset = B (nothing cached)
New(s) == [live |-> TRUE, ctr |-> s, cache |-> [i \in 1..B |-> {}], off |-> B, pos |-> <<s, 0, 0>>]
Dead == [live |-> FALSE, ctr |-> <<0, 0>>, cache |-> [i \in 1..B |-> {}], off |-> B, pos |-> <<<<0, 0>>, 0, 0>>]
RECURSIVE Loop(_, _, _, _)
Loop(c, data, i, out) ==                                         \* while i < len { refill?; xor min(B-off, len-i) bytes }
  IF i >= Len(data) THEN <<c, out>>
  ELSE LET c1 == IF c.off = B THEN [c EXCEPT !.cache = KSBlock(c.ctr), !.ctr = IncW(c.ctr), !.off = 0] ELSE c
           count == IF B - c1.off < Len(data) - i THEN B - c1.off ELSE Len(data) - i
           piece == [k \in 1..count |-> Xor(data[i + k], c1.cache[c1.off + k])]
       IN Loop([c1 EXCEPT !.off = c1.off + count], data, i + count, out \o piece)
ProcessMutF(c, data) == LET r == Loop(c, data, 0, <<>>) IN <<[r[1] EXCEPT !.pos = AdvancePos(c.pos, Len(data))], r[2]>>
Chunk(len) == [i \in 1..len |-> {<<"d", nextByte + i - 1>>}]
Log(rec) == IF Gen THEN Append(hist, rec) ELSE hist
Tick == nops < MaxOps /\ nops' = nops + 1
Init == ctx = [x \in Ctxs |-> IF x = 1 THEN New(<<0, 0>>) ELSE Dead] /\ nops = 0 /\ nextByte = 1 /\ lastOut = <<>> /\ hist = <<>>
Br(c, len) == IF len = 0 THEN "empty" ELSE
              (IF c.off = B THEN "refill" ELSE IF c.off = 0 THEN "blockstart" ELSE "mid") \o
              (IF (IF c.off = B THEN 0 ELSE c.off) + len > B THEN "+cross" ELSE IF (IF c.off = B THEN 0 ELSE c.off) + len = B THEN "+toend" ELSE "")
Proc(x, len, op) ==
  /\ Tick /\ ctx[x].live
  /\ LET r == ProcessMutF(ctx[x], Chunk(len)) IN
       /\ ctx' = [ctx EXCEPT ![x] = r[1]]
       /\ lastOut' = <<r[2], SpecOut(ctx[x].pos, Chunk(len))>>
  /\ nextByte' = nextByte + len
  /\ hist' = Log([op |-> op, x |-> x, len |-> len, br |-> Br(ctx[x], len)])
Process(x, len) == Proc(x, len, "process")
ProcessMut(x, len) == Proc(x, len, "process_mut")
\* seek(block): set_counter(block); offset = B   (32-bit counter variants only)
Seek(x, blk) == /\ Tick /\ ~Carry /\ ctx[x].live
                /\ ctx' = [ctx EXCEPT ![x] = [@ EXCEPT !.ctr = <<blk, @[2]>>, !.off = B, !.pos = <<<<blk, ctx[x].ctr[2]>>, 0, 0>>]]
                /\ lastOut' = <<>> /\ UNCHANGED nextByte
                /\ hist' = Log([op |-> "seek", x |-> x, block |-> blk, br |-> (IF ctx[x].off = B THEN "atboundary" ELSE "midblock") \o (IF blk = M - 1 THEN "+max" ELSE "")])
\* verification hook: both counter words (64-bit counter variants)
SetCounter(x, lo, hi) == /\ Tick /\ Carry /\ ctx[x].live
                /\ ctx' = [ctx EXCEPT ![x] = [@ EXCEPT !.ctr = <<lo, hi>>, !.off = B, !.pos = <<<<lo, hi>>, 0, 0>>]]
                /\ lastOut' = <<>> /\ UNCHANGED nextByte
                /\ hist' = Log([op |-> "set_counter", x |-> x, lo |-> lo, hi |-> hi, br |-> (IF lo = M - 1 THEN "lomax" ELSE "lo") \o (IF hi = 0 THEN "" ELSE "+hi")])
Clone(x, y) == /\ Tick /\ ctx[x].live /\ ~ctx[y].live /\ ctx' = [ctx EXCEPT ![y] = ctx[x]] /\ lastOut' = <<>> /\ UNCHANGED nextByte
               /\ hist' = Log([op |-> "clone", x |-> x, y |-> y, br |-> IF ctx[x].off = B THEN "atboundary" ELSE "midblock"])
\* involution: two copies at the same position; the second processes the first one's output
Twice(x, len) == /\ Tick /\ ctx[x].live
                 /\ LET r1 == ProcessMutF(ctx[x], Chunk(len))   r2 == ProcessMutF(ctx[x], r1[2]) IN lastOut' = <<r2[2], Chunk(len)>>
                 /\ UNCHANGED <<ctx, hist>> /\ nextByte' = nextByte + len
\* Drg: bytes<N> = process_mut over zeros; fill_* = process_mut over the caller's buffer (pinned) or over zeros
DrgBytes(x, len) == /\ Tick /\ ctx[x].live
                    /\ LET r == ProcessMutF(ctx[x], [i \in 1..len |-> {}]) IN
                         /\ ctx' = [ctx EXCEPT ![x] = r[1]] /\ lastOut' = <<r[2], SpecOut(ctx[x].pos, [i \in 1..len |-> {}])>>
                    /\ UNCHANGED nextByte /\ hist' = Log([op |-> "bytes", x |-> x, len |-> len, br |-> Br(ctx[x], len)])
DrgFillSlice(x, len) == /\ Tick /\ ctx[x].live
                    /\ LET prior == Chunk(len)
                           r == ProcessMutF(ctx[x], IF DrgFill = "xor" THEN prior ELSE [i \in 1..len |-> {}]) IN
                         /\ ctx' = [ctx EXCEPT ![x] = r[1]] /\ lastOut' = <<r[2], SpecOut(ctx[x].pos, [i \in 1..len |-> {}])>>
                    /\ nextByte' = nextByte + len /\ hist' = Log([op |-> "fill_slice", x |-> x, len |-> len, br |-> Br(ctx[x], len)])
Next == \E x \in Ctxs : \/ \E len \in Lens : Process(x, len)
                        \/ \E len \in Lens : ProcessMut(x, len)
                        \/ \E b \in Seeks : Seek(x, b)
                        \/ \E lo \in Seeks, hi \in {0, M - 1} : SetCounter(x, lo, hi)
                        \/ \E y \in Ctxs \ {x} : Clone(x, y)
                        \/ \E len \in Lens : Twice(x, len)
NextGen == \E x \in Ctxs : \/ \E len \in Lens : Process(x, len)
                           \/ \E len \in Lens : ProcessMut(x, len)
                           \/ \E b \in Seeks : Seek(x, b)
                           \/ \E lo \in Seeks, hi \in {0, M - 1} : SetCounter(x, lo, hi)
                           \/ \E y \in Ctxs \ {x} : Clone(x, y)
NextDrg == \E len \in Lens : DrgBytes(1, len) \/ DrgFillSlice(1, len)
Spec == Init /\ [][Next]_vars
\* every call returns input XOR position-indexed keystream (and for the DRG: keystream only, whatever the buffer held)
InvOut == lastOut # <<>> => lastOut[1] = lastOut[2]
\* the cached block and the engine counter agree with the absolute position
InvPos == \A x \in Ctxs : ctx[x].live =>
            LET c == ctx[x]  p == c.pos IN
            IF c.off = B THEN p[3] = 0 /\ c.ctr = Words(p[1], p[2])
            ELSE /\ c.off = (IF p[3] = 0 /\ c.off # 0 THEN B ELSE p[3]) \/ c.off = p[3]
                 /\ c.ctr = Words(p[1], (IF c.off = B THEN p[2] ELSE p[2] + 1))
                 /\ c.cache = KSBlock(Words(p[1], p[2]))
Emit == (Gen /\ nops = MaxOps) => PrintT(ToJson(<<"GEN", hist>>))
\* ---- guided generation ("position matrix"): every history  process? (seek | set_counter){0,2} process{1,2}  on context 1: every pair of
\* (where the context stood - mid-block, block end, fresh) x (where it is sent - the same block, the next, the previous, twice in a row),
\* then output.  Used as a CONSTRAINT together with EmitPos; the plain generation tree contains these histories only in sampled form.
IsProc(o) == o = "process"                    \* (process_mut shares the position logic and is exercised by the plain generation tree)
IsSeek(o) == o \in {"seek", "set_counter"}
PosStep(st, e) == IF e.x # 1 THEN <<9, 0>>
                  ELSE CASE st[1] = 0 /\ IsProc(e.op) -> <<1, 1>>
                         [] st[1] \in {0, 1} /\ IsSeek(e.op) -> <<2, 1>>
                         [] st[1] = 1 /\ IsProc(e.op) -> <<3, 2>>
                         [] st[1] = 2 /\ IsSeek(e.op) /\ st[2] < 2 -> <<2, st[2] + 1>>
                         [] st[1] = 2 /\ IsProc(e.op) -> <<3, 1>>
                         [] st[1] = 3 /\ IsProc(e.op) /\ st[2] < 2 -> <<3, st[2] + 1>>
                         [] OTHER -> <<9, 0>>
PosPhase == FoldLeft(PosStep, <<0, 0>>, hist)
PosShape == PosPhase[1] # 9
EmitPos == (Gen /\ PosPhase[1] = 3 /\ \E i \in 1..Len(hist) : IsSeek(hist[i].op)) => PrintT(ToJson(<<"GEN", hist>>))
=============================================================================
