------------------------------ MODULE TraceKdf -----------------------------
(* Trace validation for the key derivation functions (property C10, shapes of C20): every event is one
   call; the oracle is HMAC.tla (RFC 5869 HKDF, RFC 8018 PBKDF2) and Scrypt.tla (RFC 7914).
   Requests beyond a function's limit must be refused (panic), never truncated or wrapped. *)
EXTENDS Scrypt, Argon2, Json, IOUtils
Rec == ndJsonDeserialize(IOEnv.TRACE)
VARIABLES hi, l, st, ok, res      \* res: the specification's answer for the event just consumed (evaluated once per step)
vars == <<hi, l, st, ok, res>>
Has(r, f) == f \in DOMAIN r
V(b) == [k |-> "v", v |-> b]
N == [k |-> "n", v |-> <<>>]
P == [k |-> "p", v |-> <<>>]
HDof(e) == [alg |-> e.alg, outlen |-> IF Has(e, "outlen") THEN e.outlen ELSE 0]
\* natural number given as 16-bit limbs (little-endian), for parameters beyond 2^31
LimbsLt(a, n) == a[4] = 0 /\ a[3] = 0 /\ (a[2] * 65536 + a[1] < n)           \* n < 2^31
LimbsZero(a) == a[1] = 0 /\ a[2] = 0 /\ a[3] = 0 /\ a[4] = 0
\* RFC 7914 section 2 / 6 constraints as the crate documents them: r, p >= 1; 1 <= logN < min(64, 16 r); r * p < 2^30
ScryptLegal(logn, r, p) ==
  /\ ~LimbsZero(r) /\ ~LimbsZero(p) /\ logn >= 1 /\ logn < 64
  /\ LimbsLt(r, 1073741824) /\ LimbsLt(p, 1073741824)                       \* otherwise r * p >= 2^30
  /\ LET rr == r[2] * 65536 + r[1]   pp == p[2] * 65536 + p[1]
     IN /\ pp <= 1073741823 \div rr                                         \* r * p < 2^30
        /\ (rr < 4 => logn < 16 * rr)                                       \* N < 2^(128 r / 8)
        /\ (logn >= 27 => (logn <= 57 /\ rr < 2 ^ (57 - logn)))             \* 128 r N must be addressable (64-bit usize)
\* the Argon2 parameter builder: setters applied in the order given, each may be repeated; the effective value of a parameter is the
\* last one set (defaults m = 32, p = 1, t = 1, version 0x13); the first refused setter names the error.  Values are 16-bit limb lists.
NatOfLimbs(a) == a[1] + 65536 * a[2]                       \* only used after the value was checked to be below 2^31
SetterError(sr) == IF sr.k = "p" THEN (IF LimbsZero(sr.v) THEN 1 ELSE IF ~LimbsLt(sr.v, 16777216) THEN 2 ELSE 0)
                   ELSE IF sr.k = "t" THEN (IF LimbsZero(sr.v) THEN 3 ELSE 0)
                   ELSE IF sr.k = "v" THEN (IF LimbsLt(sr.v, 65536) /\ sr.v[1] \in {16, 19} THEN 0 ELSE 4) ELSE 0
Builder(setters) ==
  FoldLeft(LAMBDA acc, sr : IF acc.err # 0 THEN acc
                            ELSE IF SetterError(sr) # 0 THEN [acc EXCEPT !.err = SetterError(sr)]
                            ELSE IF sr.k = "p" THEN [acc EXCEPT !.p = NatOfLimbs(sr.v)] ELSE IF sr.k = "m" THEN [acc EXCEPT !.m = NatOfLimbs(sr.v)]
                            ELSE IF sr.k = "t" THEN [acc EXCEPT !.t = NatOfLimbs(sr.v)] ELSE [acc EXCEPT !.ver = sr.v[1]],
           [err |-> 0, p |-> 1, m |-> 32, t |-> 1, ver |-> 19], setters)
LE32N(n) == <<n % 256, (n \div 256) % 256, (n \div 65536) % 256, (n \div 16777216) % 256>>
Apply(e) ==
  CASE e.op = "hkdf_extract" -> IF e.n = HOut(HDof(e)) THEN V(HkdfExtract(HDof(e), e.salt, e.ikm)) ELSE P
    [] e.op = "hkdf_expand" -> IF e.n <= 255 * HOut(HDof(e)) THEN V(HkdfExpand(HDof(e), e.prk, e.info, e.n)) ELSE P
    [] e.op = "pbkdf2" -> IF e.c >= 1 THEN V(Pbkdf2(HDof(e), e.pw, e.salt, e.c, e.n)) ELSE P
    [] e.op = "pbkdf2_blocks" ->      \* selected blocks T_i (1-based indices e.blocks) of a derived key of e.n bytes, concatenated; the last block may be partial
         LET hl == HOut(HDof(e))
             nb == (e.n + hl - 1) \div hl
             blk(i) == LET t == PbkdfBlock(HDof(e), e.pw, e.salt, e.c, i) IN IF i = nb THEN SubSeq(t, 1, e.n - hl * (nb - 1)) ELSE t
         IN V(FoldLeft(LAMBDA acc, i : acc \o blk(i), <<>>, e.blocks))
    [] e.op = "scrypt" -> IF e.n >= 1 THEN V(ScryptKdf(e.pw, e.salt, e.logn, e.r, e.p, e.n)) ELSE P
    [] e.op = "argon2" ->
         \* parameters are 16-bit limb lists; refused: p = 0, p >= 2^24, t = 0, version not in {0x10, 0x13}
         \* the builder is called in the order parallelism, memory, iterations, version: the first violated constraint names the error
         \* variant (1 ParallelismZero, 2 ParallelismTooHigh, 3 IterationsZero, 4 UnknownVersion)
         IF LimbsZero(e.p) THEN [k |-> "p", v |-> <<1>>]
         ELSE IF ~LimbsLt(e.p, 16777216) THEN [k |-> "p", v |-> <<2>>]
         ELSE IF LimbsZero(e.t) THEN [k |-> "p", v |-> <<3>>]
         ELSE IF e.version \notin {16, 19} THEN [k |-> "p", v |-> <<4>>]
         ELSE IF Has(e, "params_only") THEN N
         ELSE V(Argon2(e.type, e.version, e.t[1], e.m[1], e.p[1], e.pw, e.salt, e.key, e.aad, e.n))
    [] e.op = "argon2_built" ->          \* tag computed with parameters produced by an arbitrary setter sequence
         LET b == Builder(e.setters) IN
         IF b.err # 0 THEN [k |-> "p", v |-> <<b.err>>]
         ELSE V(Argon2(e.type, b.ver, b.t, b.m, b.p, e.pw, e.salt, e.key, e.aad, e.n))
    [] e.op = "argon2_geometry" ->       \* (memory blocks, lane length, segment length, memory_kb) after a setter sequence (verification hook)
         LET b == Builder(e.setters)   g == Geometry(b.m, b.p) IN
         IF b.err # 0 THEN [k |-> "p", v |-> <<b.err>>] ELSE V(LE32N(g.blocks) \o LE32N(g.lane) \o LE32N(g.seg) \o LE32N(b.m))
    [] e.op = "argon2_index_alpha" ->    \* the reference index of one position (verification hook); j1 = <<lo16, hi16>>
         LET b == Builder(e.setters)   g == Geometry(b.m, b.p) IN
         V(LE32N(RefIndex(g.lane, g.seg, e.pass, e.slice, e.index, e.same = 1, e.j1)))
    [] e.op = "scrypt_params" -> IF ScryptLegal(e.logn, e.r, e.p) THEN N ELSE P
Init == hi \in 1..Len(Rec) /\ l = 1 /\ st = 0 /\ ok = TRUE /\ res = <<>>
Step == /\ ok /\ l <= Len(Rec[hi].ev)
        /\ res' = Apply(Rec[hi].ev[l])
        /\ LET h == Rec[hi]
               e == h.ev[l]
               good == e.out.k = res'.k /\ e.out.v = res'.v
           IN /\ ok' = good
              /\ IF good THEN TRUE ELSE PrintT(ToJson(<<"BAD", h.id, l, res', e.out>>))
              /\ IF good /\ l = Len(h.ev) THEN PrintT(ToJson(<<"DONE", h.id, l>>)) ELSE TRUE
        /\ l' = l + 1 /\ UNCHANGED <<hi, st>>
Spec == Init /\ [][Step]_vars
=============================================================================
