CONSTANTS W = 3  Add = "wrapping"  Profile = "unchecked"  MaxInc = 7
INIT Init
NEXT Step
INVARIANT InvNoPanic
INVARIANT InvValue
CHECK_DEADLOCK FALSE
