CONSTANTS B = 4  M = 4  Carry = FALSE  MaxOps = 6  NCtx = 1  Lens = {0, 1, 3, 4, 5, 9}  Seeks = {0}  DrgFill = "xor"  Gen = FALSE
INIT Init
NEXT NextDrg
INVARIANT InvOut
INVARIANT InvPos
CHECK_DEADLOCK FALSE
