CONSTANTS H = 3  W = 2  MaxC = 5  LoopFrom = 1
INIT Init
NEXT Next
INVARIANT InvHkdf
INVARIANT InvPbkdf
CHECK_DEADLOCK FALSE
