CONSTANTS B = 2  K = 5  MaxSub = 2
INIT Init
NEXT Next
INVARIANT InvValue
INVARIANT InvTwoSubtractions
CHECK_DEADLOCK FALSE
