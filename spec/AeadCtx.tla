-------------------------------- MODULE AeadCtx -----------------------------
(* Object machine of chacha20poly1305::Context -> ContextEncryption | ContextDecryption and
   of the one-shot ChaChaPoly1305 (src/chacha20poly1305.rs): phases, aad_len, data_len, the
   byte stream fed to Poly1305 (add_data, pad16, add_encrypted, the two length words), the
   cipher position, the one-shot `finished` flag.  Bytes are GF(2) vectors over atoms
   (sets with symmetric difference, as in StreamCtx): plaintext byte n = {<<"d", n>>},
   keystream byte at data position p = {<<"k", p>>}.  Q = Poly1305 block size (16; 4 in MC).
   MacOrder = "ct" (MAC always over ciphertext: encrypt = cipher then MAC, decrypt = MAC then cipher). *)
EXTENDS Integers, Sequences, SequencesExt, FiniteSets, TLC, Json
CONSTANTS Q, MaxOps, MaxLen, Lens, Gen
VARIABLES c, nops, nextByte, lastOut, hist
vars == <<c, nops, nextByte, lastOut, hist>>
Xor(a, b) == (a \ b) \cup (b \ a)
ZeroN(n) == [i \in 1..n |-> {}]
KS(p) == {<<"k", p>>}
LenSym(n) == {<<"len", n>>}
\* ---- RFC 8439 2.8: the MAC input for (aad, ct)
PadTo(x) == ZeroN((Q - (Len(x) % Q)) % Q)
StdMac(aad, ct) == aad \o PadTo(aad) \o ct \o PadTo(ct) \o <<LenSym(Len(aad)), LenSym(Len(ct))>>
\* ---- the code
Pad16(mac, len) == IF len % Q # 0 THEN mac \o ZeroN(Q - (len % Q)) ELSE mac
Init == /\ c = [phase |-> "aad", mac |-> <<>>, aadLen |-> 0, dataLen |-> 0, pos |-> 0, aad |-> <<>>, ct |-> <<>>, pt |-> <<>>]
        /\ nops = 0 /\ nextByte = 1 /\ lastOut = <<>> /\ hist = <<>>
Log(rec) == IF Gen THEN Append(hist, rec) ELSE hist
Tick == nops < MaxOps /\ nops' = nops + 1
Chunk(len) == [i \in 1..len |-> {<<"d", nextByte + i - 1>>}]
AddData(len) == /\ Tick /\ c.phase = "aad" /\ c.aadLen + len <= MaxLen
                /\ c' = [c EXCEPT !.aadLen = @ + len, !.mac = @ \o Chunk(len), !.aad = @ \o Chunk(len)]
                /\ nextByte' = nextByte + len /\ lastOut' = <<>> /\ hist' = Log([op |-> "add_data", len |-> len])
ToEnc == /\ Tick /\ c.phase = "aad" /\ c' = [c EXCEPT !.phase = "enc", !.mac = Pad16(c.mac, c.aadLen)]
         /\ UNCHANGED nextByte /\ lastOut' = <<>> /\ hist' = Log([op |-> "to_encryption", br |-> IF c.aadLen % Q = 0 THEN "aligned" ELSE "pad"])
ToDec == /\ Tick /\ c.phase = "aad" /\ c' = [c EXCEPT !.phase = "dec", !.mac = Pad16(c.mac, c.aadLen)]
         /\ UNCHANGED nextByte /\ lastOut' = <<>> /\ hist' = Log([op |-> "to_decryption", br |-> IF c.aadLen % Q = 0 THEN "aligned" ELSE "pad"])
\* encrypt / encrypt_mut: cipher.process, then add_encrypted(output)
Enc(len, op) == /\ Tick /\ c.phase = "enc" /\ c.dataLen + len <= MaxLen
                /\ LET pt == Chunk(len)
                       out == [i \in 1..len |-> Xor(pt[i], KS(c.pos + i - 1))]
                   IN /\ c' = [c EXCEPT !.mac = @ \o out, !.dataLen = @ + len, !.pos = @ + len, !.ct = @ \o out, !.pt = @ \o pt]
                      /\ lastOut' = <<"data", out, [i \in 1..len |-> Xor(pt[i], KS(c.pos + i - 1))]>>
                /\ nextByte' = nextByte + len /\ hist' = Log([op |-> op, len |-> len])
\* decrypt / decrypt_mut: add_encrypted(input), then cipher.process; the input is a valid ciphertext of fresh plaintext
Dec(len, op) == /\ Tick /\ c.phase = "dec" /\ c.dataLen + len <= MaxLen
                /\ LET pt == Chunk(len)
                       ct == [i \in 1..len |-> Xor(pt[i], KS(c.pos + i - 1))]
                       out == [i \in 1..len |-> Xor(ct[i], KS(c.pos + i - 1))]
                   IN /\ c' = [c EXCEPT !.mac = @ \o ct, !.dataLen = @ + len, !.pos = @ + len, !.ct = @ \o ct, !.pt = @ \o pt]
                      /\ lastOut' = <<"data", out, pt>>                      \* decryption inverts encryption
                /\ nextByte' = nextByte + len /\ hist' = Log([op |-> op, len |-> len])
\* finalize_raw: pad16(data_len), the two lengths, raw_result
Finalize == /\ Tick /\ c.phase \in {"enc", "dec"}
            /\ LET m == Pad16(c.mac, c.dataLen) \o <<LenSym(c.aadLen), LenSym(c.dataLen)>>
               IN lastOut' = <<"tag", m, StdMac(c.aad, c.ct)>>
            /\ c' = [c EXCEPT !.phase = "done"] /\ UNCHANGED nextByte
            /\ hist' = Log([op |-> "finalize", br |-> IF c.dataLen % Q = 0 THEN "aligned" ELSE "pad"])
Next == \/ \E len \in Lens : AddData(len)
        \/ ToEnc \/ ToDec
        \/ \E len \in Lens : Enc(len, "encrypt")
        \/ \E len \in Lens : Enc(len, "encrypt_mut")
        \/ \E len \in Lens : Dec(len, "decrypt")
        \/ \E len \in Lens : Dec(len, "decrypt_mut")
        \/ Finalize
Spec == Init /\ [][Next]_vars
\* for every partition of aad and data across calls: outputs are position-indexed, decrypt inverts encrypt, and the
\* MAC input is exactly RFC 8439's for (aad, ciphertext)
InvOut == lastOut # <<>> => lastOut[2] = lastOut[3]
InvLens == c.aadLen = Len(c.aad) /\ c.dataLen = Len(c.ct) /\ c.pos = c.dataLen
Emit == (Gen /\ c.phase = "done") => PrintT(ToJson(<<"GEN", hist>>))
=============================================================================
