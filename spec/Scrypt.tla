------------------------------- MODULE Scrypt ------------------------------
(* RFC 7914: scrypt = PBKDF2-HMAC-SHA256 / ROMix / BlockMix over the Salsa20/8 core (Salsa.tla). *)
EXTENDS HMAC, Salsa
S256 == [alg |-> "sha256", outlen |-> 32]
\* RFC 7914 section 4: B = 2r blocks of 64 bytes
BlockMix(B, r) ==
  LET blk(i) == SubSeq(B, 64 * i + 1, 64 * (i + 1))                 \* i = 0..2r-1
      step(acc, i) == LET x == SalsaCore(XorBytes(acc[1], blk(i)), 8) IN <<x, Append(acc[2], x)>>
      ys == FoldLeft(step, <<blk(2 * r - 1), <<>>>>, Rng(0, 2 * r - 1))[2]
  IN Flatten([k \in 1..(2 * r) |-> IF k <= r THEN ys[2 * (k - 1) + 1] ELSE ys[2 * (k - r - 1) + 2]])
\* Integerify(X) mod N for N = 2^logN <= 2^16: little-endian integer of the last 64-byte block
Integerify(X, r, N) == LET o == 128 * r - 64 IN (X[o + 1] + 256 * X[o + 2]) % N
\* RFC 7914 section 5
ROMix(B, r, N) ==
  LET fill(acc, i) == <<BlockMix(acc[1], r), Append(acc[2], acc[1])>>
      f == FoldLeft(fill, <<B, <<>>>>, Rng(1, N))
      V == f[2]
      mix(x, i) == BlockMix(XorBytes(x, V[Integerify(x, r, N) + 1]), r)
  IN FoldLeft(mix, f[1], Rng(1, N))
\* RFC 7914 section 6;  N = 2^logN, logN <= 16 here
ScryptKdf(pw, salt, logN, r, p, dkLen) ==
  LET N == 2 ^ logN
      B == Pbkdf2(S256, pw, salt, 1, p * 128 * r)
      B2 == Flatten([i \in 1..p |-> ROMix(SubSeq(B, 128 * r * (i - 1) + 1, 128 * r * i), r, N)])
  IN Pbkdf2(S256, pw, B2, 1, dkLen)
=============================================================================
