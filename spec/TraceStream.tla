----------------------------- MODULE TraceStream ----------------------------
(* Trace validation for the stream ciphers, the ChaCha engines behind the verification hook and
   the deterministic random generator (properties C03, C04, C16, C20).
   Abstract state of a cipher context = its absolute stream position (block counter as 16-bit
   limbs, byte offset in the block); key, nonce, variant and rounds are fixed by the history.
   Every byte ever returned must be input XOR the position-indexed keystream of the functional
   modules (ChaCha.tla / Salsa.tla), whatever the call sizes, seeks, clones or counter presets. *)
EXTENDS Salsa, Json, IOUtils
Rec == ndJsonDeserialize(IOEnv.TRACE)
VARIABLES hi, l, st, ok, res      \* res: the specification's answer for the event just consumed (evaluated once per step)
vars == <<hi, l, st, ok, res>>
Has(r, f) == f \in DOMAIN r
V(b) == [k |-> "v", v |-> b]
N == [k |-> "n", v |-> <<>>]
P == [k |-> "p", v |-> <<>>]
NSlot == 4
IsChaCha(v) == v \in {"ietf", "original", "xchacha"}
Wide(v) == v \in {"original", "salsa", "xsalsa"}            \* 64-bit block counter with carry
KS(h, ctr, off, n) == IF IsChaCha(h.variant) THEN KeyStream(h.variant, h.rounds, h.key, h.nonce, ctr, off, n)
                      ELSE SKeyStream(h.variant, h.rounds, h.key, h.nonce, ctr, off, n)
Advance(h, ctr, k) == IF Wide(h.variant) THEN CtrAdd64(ctr, k) ELSE CtrAdd32(ctr, k)
LegalNew(h) ==
  /\ h.rounds \in {8, 12, 20}
  /\ IF h.variant \in {"xchacha", "xsalsa"} THEN Len(h.key) = 32 ELSE Len(h.key) \in {16, 32}
Dead == [live |-> FALSE, ctr |-> <<0, 0, 0, 0>>, off |-> 0]
Start == [live |-> TRUE, ctr |-> <<0, 0, 0, 0>>, off |-> 0]

ApplyStream(h, s, e) ==
  LET x == IF Has(e, "x") THEN e.x ELSE 1
      c == s[x]
  IN CASE e.op = "new" -> [st |-> s, out |-> IF LegalNew(h) THEN N ELSE P]
       [] e.op \in {"process", "process_mut"} ->
            IF e.op = "process" /\ Has(e, "n") /\ e.n # Len(e.data) THEN [st |-> s, out |-> P]     \* output length must equal input length
            ELSE LET n == Len(e.data)
                     tot == c.off + n
                 IN [st |-> [s EXCEPT ![x] = [live |-> TRUE, ctr |-> Advance(h, c.ctr, tot \div 64), off |-> tot % 64]],
                     out |-> V(XorBytes(e.data, KS(h, c.ctr, c.off, n)))]
       [] e.op = "seek" -> [st |-> [s EXCEPT ![x] = [live |-> TRUE, ctr |-> <<e.block[1], e.block[2], 0, 0>>, off |-> 0]], out |-> N]
       [] e.op = "set_counter" -> [st |-> [s EXCEPT ![x] = [live |-> TRUE, ctr |-> e.block, off |-> 0]], out |-> N]
       [] e.op = "clone" -> [st |-> [s EXCEPT ![e.y] = c], out |-> N]

\* ---- the deterministic random generator: ChaCha<R>(seed, nonce 0), every request returns the next keystream bytes
DrgHist(h) == [variant |-> "ietf", rounds |-> h.rounds, key |-> h.seed, nonce |-> Zeros(12)]
ApplyDrg(h, s, e) ==
  LET c == s[1]
      n == CASE e.op = "bytes" -> e.n [] e.op \in {"fill_bytes", "fill_slice"} -> Len(e.prior) [] e.op = "u32" -> 4 [] e.op = "u64" -> 8 [] OTHER -> 0
      tot == c.off + n
  IN IF e.op = "new" THEN [st |-> s, out |-> IF h.rounds \in {8, 12, 20} THEN N ELSE P]
     ELSE [st |-> [s EXCEPT ![1] = [live |-> TRUE, ctr |-> CtrAdd32(c.ctr, tot \div 64), off |-> tot % 64]],
           out |-> V(KS(DrgHist(h), c.ctr, c.off, n))]

\* ---- engine queries (verification hook): one stateless event each
EngineWords(e) ==
  LET nw == WordsLE32(e.nonce)
      base == IF Len(e.nonce) = 16 THEN nw ELSE IF Len(e.nonce) = 12 THEN <<W32(0)>> \o nw ELSE <<W32(0), W32(0)>> \o nw
      w1 == IF Has(e, "ctr") THEN <<Lo32(e.ctr), Hi32(e.ctr), base[3], base[4]>> ELSE base
      w2 == IF Has(e, "ctr32") THEN <<Lo32(e.ctr32), w1[2], w1[3], w1[4]>> ELSE w1
      asctr(w) == <<w[1][2], w[1][1], w[2][2], w[2][1]>>
      c1 == IF Has(e, "inc") THEN CtrAdd32(asctr(w2), e.inc) ELSE asctr(w2)
      c2 == IF Has(e, "inc64") THEN CtrAdd64(c1, e.inc64) ELSE c1
  IN <<IF Has(e, "ctr32b") THEN Lo32(e.ctr32b) ELSE Lo32(c2), Hi32(c2), w2[3], w2[4]>>       \* set_counter again: the low word is replaced, not combined
ApplyEngine(e) ==
  LET s0 == InitState(e.key, EngineWords(e))
  IN IF e.op = "hchacha" THEN LET w == Rounds(s0, e.rounds) IN V(BytesOfLE32(SubSeq(w, 1, 4) \o SubSeq(w, 13, 16)))
     ELSE V(Block(s0, e.rounds))

Apply(h, s, e) == CASE h.cls = "stream" -> ApplyStream(h, s, e)
                    [] h.cls = "drg" -> ApplyDrg(h, s, e)
                    [] h.cls = "engine" -> [st |-> s, out |-> ApplyEngine(e)]
Fresh(h) == [x \in 1..NSlot |-> IF x = 1 THEN Start ELSE Dead]
Init == hi \in 1..Len(Rec) /\ l = 1 /\ st = Fresh(Rec[hi]) /\ ok = TRUE /\ res = <<>>
Step == /\ ok /\ l <= Len(Rec[hi].ev)
        /\ res' = Apply(Rec[hi], st, Rec[hi].ev[l])
        /\ LET h == Rec[hi]
               e == h.ev[l]
               good == e.out.k = res'.out.k /\ e.out.v = res'.out.v
           IN /\ st' = IF good THEN res'.st ELSE st
              /\ ok' = good
              /\ IF good THEN TRUE ELSE PrintT(ToJson(<<"BAD", h.id, l, res'.out, e.out>>))
              /\ IF good /\ l = Len(h.ev) THEN PrintT(ToJson(<<"DONE", h.id, l>>)) ELSE TRUE
        /\ l' = l + 1 /\ UNCHANGED hi
Spec == Init /\ [][Step]_vars
=============================================================================
