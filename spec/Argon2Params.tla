---------------------------- MODULE Argon2Params ----------------------------
(* Object machine of the Argon2 parameter builder (kdf/argon2.rs Params): the setters memory_kb, parallelism, iterations, version
   may be called in any order and any number of times; parallelism_override_memory (transcribed) recomputes the derived geometry
   after memory_kb and parallelism.  Property: after any setter sequence the geometry is the RFC 9106 function of the *last* values
   set: m' = 4p * floor(m / 4p) blocks, lanes of m' / p, segments of a quarter lane - provided the request never went below 8 blocks
   per lane (below that the crate raises the memory silently, which it documents and the properties exclude; `raised` records it).
   MC: exhaustive over small value sets.  GEN (Gen = TRUE): every setter sequence up to MaxOps without a raise is printed and
   replayed: the derived geometry is read back through the verification hook and tags are computed with the built parameters. *)
EXTENDS Integers, Sequences, TLC, Json
CONSTANTS Ms, Ps, MaxOps, Gen
VARIABLES m, p, t, blocks, lane, seg, raised, nops, hist
vars == <<m, p, t, blocks, lane, seg, raised, nops, hist>>
Geometry(mm, pp) == LET mp == 4 * pp * (mm \div (4 * pp)) IN <<mp, mp \div pp, (mp \div pp) \div 4>>
\* Params::def
Init == m = 32 /\ p = 1 /\ t = 1 /\ blocks = 32 /\ lane = 32 /\ seg = 8 /\ raised = FALSE /\ nops = 0 /\ hist = <<>>
\* fn parallelism_override_memory(&mut self), on the new (m, p)
Override(mm, pp) ==
  LET mb == IF mm < 8 * pp THEN 8 * pp ELSE mm
      sl == mb \div (pp * 4)
  IN /\ m' = mb /\ seg' = sl /\ blocks' = sl * (pp * 4) /\ lane' = sl * 4 /\ raised' = (raised \/ mm < 8 * pp)
Log(k, v) == hist' = IF Gen THEN Append(hist, [k |-> k, v |-> v]) ELSE hist
SetM(v) == nops < MaxOps /\ nops' = nops + 1 /\ Override(v, p) /\ UNCHANGED <<p, t>> /\ Log("m", v)
SetP(v) == nops < MaxOps /\ nops' = nops + 1 /\ p' = v /\ Override(m, v) /\ UNCHANGED t /\ Log("p", v)
SetT(v) == nops < MaxOps /\ nops' = nops + 1 /\ t' = v /\ UNCHANGED <<m, p, blocks, lane, seg, raised>> /\ Log("t", v)
Next == (\E v \in Ms : SetM(v)) \/ (\E v \in Ps : SetP(v)) \/ (\E v \in {1, 2} : SetT(v))
Spec == Init /\ [][Next]_vars
InvGeometry == ~raised => <<blocks, lane, seg>> = Geometry(m, p)
Emit == (Gen /\ ~raised /\ nops >= 2) => PrintT(ToJson(<<"GEN", hist>>))
View == <<m, p, t, blocks, lane, seg, raised, nops>>
=============================================================================
