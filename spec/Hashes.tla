------------------------------- MODULE Hashes ------------------------------
(* The hash functions the library offers, by name: the one place where a variant name used
   in scripts and traces is bound to the standard function it must compute.
   Digest(alg, key, outlen, start, msg): key/outlen/start only matter for BLAKE2
   (start = byte counter preset through the verification hook; all-zero normally). *)
EXTENDS SHA1, RIPEMD160, Keccak, Blake2

IsBlake(alg) == alg \in {"blake2b", "blake2s"}
BlockSize(alg) ==
  CASE alg \in {"sha1", "ripemd160", "sha224", "sha256", "blake2s"} -> 64
    [] alg \in {"sha384", "sha512", "sha512_224", "sha512_256", "blake2b"} -> 128
    [] alg \in {"sha3_224", "keccak224"} -> 144
    [] alg \in {"sha3_256", "keccak256"} -> 136
    [] alg \in {"sha3_384", "keccak384"} -> 104
    [] alg \in {"sha3_512", "keccak512"} -> 72
FixedOutLen(alg) ==
  CASE alg \in {"sha1", "ripemd160"} -> 20
    [] alg \in {"sha224", "sha512_224", "sha3_224", "keccak224"} -> 28
    [] alg \in {"sha256", "sha512_256", "sha3_256", "keccak256"} -> 32
    [] alg \in {"sha384", "sha3_384", "keccak384"} -> 48
    [] alg \in {"sha512", "sha3_512", "keccak512"} -> 64
MaxOut(alg) == IF alg = "blake2b" THEN 64 ELSE 32          \* BLAKE2 limits (RFC 7693 2.1)
MaxKey(alg) == IF alg = "blake2b" THEN 64 ELSE 32
\* Merkle-Damgard variants with a preset processed-bytes count (verification hook): start = the count as 16 little-endian bytes
DigestOff(alg, off, msg) ==
  CASE alg = "sha1" -> Sha1Off(msg, off)
    [] alg = "ripemd160" -> Ripemd160Off(msg, off)
    [] alg = "sha224" -> Hash256Off(H224, msg, 28, off)
    [] alg = "sha256" -> Hash256Off(H256, msg, 32, off)
    [] alg = "sha384" -> Hash512Off(H384, msg, 48, off)
    [] alg = "sha512" -> Hash512Off(H512, msg, 64, off)
    [] alg = "sha512_224" -> Hash512Off(H512T224, msg, 28, off)
    [] alg = "sha512_256" -> Hash512Off(H512T256, msg, 32, off)
IsMD(alg) == alg \in {"sha1", "ripemd160", "sha224", "sha256", "sha384", "sha512", "sha512_224", "sha512_256"}
Digest(alg, key, outlen, start, msg) ==
  CASE IsMD(alg) /\ start # <<>> -> DigestOff(alg, start, msg)
    [] alg = "sha1" -> Sha1(msg)
    [] alg = "ripemd160" -> Ripemd160(msg)
    [] alg = "sha224" -> Sha224(msg)
    [] alg = "sha256" -> Sha256(msg)
    [] alg = "sha384" -> Sha384(msg)
    [] alg = "sha512" -> Sha512(msg)
    [] alg = "sha512_224" -> Sha512T224(msg)
    [] alg = "sha512_256" -> Sha512T256(msg)
    [] alg = "sha3_224" -> Sha3(28, msg)
    [] alg = "sha3_256" -> Sha3(32, msg)
    [] alg = "sha3_384" -> Sha3(48, msg)
    [] alg = "sha3_512" -> Sha3(64, msg)
    [] alg = "keccak224" -> KeccakH(28, msg)
    [] alg = "keccak256" -> KeccakH(32, msg)
    [] alg = "keccak384" -> KeccakH(48, msg)
    [] alg = "keccak512" -> KeccakH(64, msg)
    [] alg = "blake2b" -> Blake2bFrom(msg, key, outlen, start)
    [] alg = "blake2s" -> Blake2sFrom(msg, key, outlen, start)
\* plain hash by name (no key), as used by HMAC and the KDFs
H(alg, msg) == Digest(alg, <<>>, 0, <<>>, msg)
=============================================================================
