CONSTANTS B = 4  K = 3  MaxSub = 1
INIT Init
NEXT Next
INVARIANT InvValue
INVARIANT InvTwoSubtractions
CHECK_DEADLOCK FALSE
