-------------------------------- MODULE Ladder ------------------------------
(* The Montgomery ladder of curve25519::curve25519 (src/curve25519/mod.rs) as a state machine:
   one action per scalar bit (conditional swap driven by swap XOR bit, the fixed differential
   add-and-double formulas), then the final swap and z^-1 * x.  The control skeleton is the
   code's; the field is a toy prime field GF(Q) and the curve a toy Montgomery curve
   y^2 = x^3 + A x^2 + x, so that TLC can check, for EVERY scalar of NBits bits and EVERY
   x-coordinate, that the ladder returns x(k * P) as computed by the affine group law
   (an independent definition), and 0 for the point at infinity - including the exceptional
   inputs (x = 0, points of small order, x not on the curve is skipped).  Because every
   action sequence is StepBit^NBits . Finish with data-independent operations, the operation
   trace is the same for all scalars (design-level counterpart of property C19). *)
EXTENDS Integers, Sequences, FiniteSets, TLC
CONSTANTS Q, A, NBits
VARIABLES k, x1, x2, z2, x3, z3, swap, pos, out
vars == <<k, x1, x2, z2, x3, z3, swap, pos, out>>
Fq == 0..(Q - 1)
M(a) == a % Q
RECURSIVE Pow(_, _)
Pow(a, e) == IF e = 0 THEN 1 ELSE IF e % 2 = 0 THEN Pow(M(a * a), e \div 2) ELSE M(a * Pow(M(a * a), e \div 2))
Inv(a) == Pow(a, Q - 2)                                   \* 0 maps to 0, as Fe::invert does
A24 == M((A + 2) * Inv(4))                                \* the code's 121666 = (A + 2) / 4 for curve25519
\* ---- reference: affine group law on y^2 = x^3 + A x^2 + x; INF = <<>>
OnCurve(p) == M(p[2] * p[2]) = M(p[1] * p[1] * p[1] + A * p[1] * p[1] + p[1])
Points == {p \in Fq \X Fq : OnCurve(p)}
AddP(p, q) ==
  IF p = <<>> THEN q ELSE IF q = <<>> THEN p
  ELSE IF p[1] = q[1] /\ M(p[2] + q[2]) = 0 THEN <<>>
  ELSE LET lam == IF p = q THEN M((3 * p[1] * p[1] + 2 * A * p[1] + 1) * Inv(M(2 * p[2])))
                  ELSE M((q[2] - p[2] + Q) * Inv(M(q[1] - p[1] + Q)))
           xr == M(lam * lam - A - p[1] - q[1] + 3 * Q * Q)
           yr == M(lam * (p[1] - xr + Q) - p[2] + Q * Q)
       IN <<xr, yr>>
RECURSIVE MulP(_, _)
MulP(n, p) == IF n = 0 THEN <<>> ELSE AddP(p, MulP(n - 1, p))
RefX(n, p) == LET r == MulP(n, p) IN IF r = <<>> THEN 0 ELSE r[1]
\* ---- the code
Bit(n, i) == (n \div (2 ^ i)) % 2
Init == /\ k \in 0..(2 ^ NBits - 1) /\ x1 \in {p[1] : p \in Points}
        /\ x2 = 1 /\ z2 = 0 /\ x3 = x1 /\ z3 = 1 /\ swap = 0 /\ pos = NBits - 1 /\ out = -1
StepBit ==
  /\ pos >= 0
  /\ LET b == Bit(k, pos)
         s == (swap + b) % 2                                \* swap ^ b
         a2 == IF s = 1 THEN x3 ELSE x2   c2 == IF s = 1 THEN z3 ELSE z2      \* maybe_swap_with
         a3 == IF s = 1 THEN x2 ELSE x3   c3 == IF s = 1 THEN z2 ELSE z3
         d == M(a3 - c3 + Q)   bb0 == M(a2 - c2 + Q)   aa0 == M(a2 + c2)   c == M(a3 + c3)
         da == M(d * aa0)   cb == M(c * bb0)
         bb == M(bb0 * bb0)   aa == M(aa0 * aa0)
         t0 == M(da + cb)   t1 == M(da - cb + Q)
         x4 == M(aa * bb)   e == M(aa - bb + Q)
         t2 == M(t1 * t1)   t3 == M(e * A24)
         x5 == M(t0 * t0)   t4 == M(bb + t3)
         z5 == M(x1 * t2)   z4 == M(e * t4)
     IN /\ x2' = x4 /\ z2' = z4 /\ x3' = x5 /\ z3' = z5 /\ swap' = b
  /\ pos' = pos - 1 /\ UNCHANGED <<k, x1, out>>
Finish ==
  /\ pos = -1 /\ out = -1
  /\ LET fx == IF swap = 1 THEN x3 ELSE x2   fz == IF swap = 1 THEN z3 ELSE z2
     IN out' = M(Inv(fz) * fx)
  /\ UNCHANGED <<k, x1, x2, z2, x3, z3, swap, pos>>
Next == StepBit \/ Finish
Spec == Init /\ [][Next]_vars
\* the ladder returns the x-coordinate of k * P for every point P with that x (both square roots give the same x)
InvResult == out # -1 => \A p \in Points : p[1] = x1 => out = RefX(k, p)
=============================================================================
