------------------------------- MODULE Salsa -------------------------------
(* Salsa20/r (Bernstein, "The Salsa20 family of stream ciphers"), HSalsa20 and XSalsa20
   ("Extending the Salsa20 nonce"), the Salsa20/8 core used by scrypt; 16- or 32-byte keys.
   State layout: c0 k0 k1 k2 k3 c1 n0 n1 ctr0 ctr1 c2 k4 k5 k6 k7 c3; 64-bit block counter. *)
EXTENDS ChaCha
SQR(s, a, b, c, d) ==
  LET b1 == Xor32(s[b], Rotl32(Add32(s[a], s[d]), 7))
      c1 == Xor32(s[c], Rotl32(Add32(b1, s[a]), 9))
      d1 == Xor32(s[d], Rotl32(Add32(c1, b1), 13))
      a1 == Xor32(s[a], Rotl32(Add32(d1, c1), 18))
  IN TLCEval([i \in 1..16 |-> IF i = a THEN a1 ELSE IF i = b THEN b1 ELSE IF i = c THEN c1 ELSE IF i = d THEN d1 ELSE s[i]])
SDoubleRound(s) ==
  LET s1 == SQR(s, 1, 5, 9, 13)   s2 == SQR(s1, 6, 10, 14, 2)  s3 == SQR(s2, 11, 15, 3, 7)  s4 == SQR(s3, 16, 4, 8, 12)    \* columns
      s5 == SQR(s4, 1, 2, 3, 4)   s6 == SQR(s5, 6, 7, 8, 5)    s7 == SQR(s6, 11, 12, 9, 10)                               \* rows
  IN SQR(s7, 16, 13, 14, 15)
SRounds(s, rounds) == FoldLeft(LAMBDA acc, i: SDoubleRound(acc), s, Rng(1, rounds \div 2))
\* the Salsa20 core: rounds + feed-forward on a 64-byte string (scrypt uses rounds = 8)
SalsaCore(bytes64, rounds) == LET st == WordsLE32(bytes64)  w == SRounds(st, rounds) IN BytesOfLE32([i \in 1..16 |-> Add32(w[i], st[i])])
SState(key, w6to9) ==
  LET c == Consts(key)  k == KeyWords(key)
  IN <<c[1], k[1], k[2], k[3], k[4], c[2], w6to9[1], w6to9[2], w6to9[3], w6to9[4], c[3], k[5], k[6], k[7], k[8], c[4]>>
SBlock(st, rounds) == LET w == SRounds(st, rounds) IN BytesOfLE32([i \in 1..16 |-> Add32(w[i], st[i])])
HSalsa(key, nonce16, rounds) ==
  LET w == SRounds(SState(key, WordsLE32(nonce16)), rounds) IN BytesOfLE32(<<w[1], w[6], w[11], w[16], w[7], w[8], w[9], w[10]>>)
SEffKey(variant, key, nonce, rounds) == IF variant = "xsalsa" THEN HSalsa(key, SubSeq(nonce, 1, 16), rounds) ELSE key
SNonce8(variant, nonce) == IF variant = "xsalsa" THEN SubSeq(nonce, 17, 24) ELSE nonce
SKSBlock(variant, rounds, key, nonce, ctr) ==
  SBlock(SState(SEffKey(variant, key, nonce, rounds), WordsLE32(SNonce8(variant, nonce)) \o <<Lo32(ctr), Hi32(ctr)>>), rounds)
SKeyStream(variant, rounds, key, nonce, ctr, off, n) ==
  IF n = 0 THEN <<>> ELSE
  LET k == SEffKey(variant, key, nonce, rounds)
      n8 == WordsLE32(SNonce8(variant, nonce))
      first == off \div 64
      last == (off + n - 1) \div 64
      c0 == FoldLeft(LAMBDA c, j: CtrAdd64(c, 1), ctr, Rng(1, first))
      step(acc, j) == <<acc[1] \o SBlock(SState(k, n8 \o <<Lo32(acc[2]), Hi32(acc[2])>>), rounds), CtrAdd64(acc[2], 1)>>
      ks == FoldLeft(step, <<<<>>, c0>>, Rng(first, last))[1]
  IN SubSeq(ks, (off % 64) + 1, (off % 64) + n)
=============================================================================
