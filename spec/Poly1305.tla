------------------------------ MODULE Poly1305 -----------------------------
(* RFC 8439 2.5: Poly1305.  key = r (16 bytes, clamped) || s (16 bytes); the message is cut into
   16-byte blocks, each read as a little-endian number with an extra 0x01 byte appended;
   acc = (acc + block) * r mod 2^130-5; tag = (acc + s) mod 2^128, little-endian.
   Arithmetic in BigNat (radix 2^13: 2^130 is exactly 10 limbs). *)
EXTENDS BigNat
P1305 == [i \in 1..11 |-> IF i = 1 THEN 8187 ELSE IF i <= 10 THEN 8191 ELSE 0]      \* 2^130 - 5 (11 limbs)
ClampR(r) == [i \in 1..16 |-> IF i \in {4, 8, 12, 16} THEN r[i] % 16
                              ELSE IF i \in {5, 9, 13} THEN r[i] - (r[i] % 4) ELSE r[i]]
Poly1305Mac(key, msg) ==
  LET r == LimbsOfBytes(ClampR(SubSeq(key, 1, 16)), 10)
      s == LimbsOfBytes(SubSeq(key, 17, 32), 10)
      nb == (Len(msg) + 15) \div 16
      blk(k) == SubSeq(msg, 16 * (k - 1) + 1, MinI(16 * k, Len(msg))) \o <<1>>
      step(acc, k) == ModN(MulN(TrimTo(AddN(acc, LimbsOfBytes(blk(k), 11)), 11), r), P1305)
      acc == FoldLeft(step, Zeros(11), Rng(1, nb))
  IN BytesOfLimbs(AddN(acc, s), 16)
=============================================================================
