----------------------------- MODULE TraceAead -----------------------------
(* Trace validation for ChaCha20-Poly1305 (properties C06, C07, C20): the incremental
   Context -> ContextEncryption | ContextDecryption interface and the one-shot object.
   Abstract state of an incremental context: its phase and the associated data and the
   ciphertext seen so far (plus, for byte-exact output checking, how many data bytes were
   processed).  The oracle is AEAD.tla (RFC 8439 2.8): ciphertext = plaintext XOR keystream
   from block 1, tag = Poly1305 over aad | pad | ct | pad | lengths, and the decryption
   verdict is exactly (supplied tag = tag of these inputs). *)
EXTENDS AEAD, Json, IOUtils
Rec == ndJsonDeserialize(IOEnv.TRACE)
VARIABLES hi, l, st, ok, res      \* res: the specification's answer for the event just consumed (evaluated once per step)
vars == <<hi, l, st, ok, res>>
Has(r, f) == f \in DOMAIN r
V(b) == [k |-> "v", v |-> b]
N == [k |-> "n", v |-> <<>>]
P == [k |-> "p", v |-> <<>>]
NSlot == 3
LegalNew(h) == Len(h.key) \in {16, 32} /\ h.rounds \in {8, 12, 20}
Gone == [phase |-> "gone", aad |-> <<>>, ct |-> <<>>]
Fresh(h) == IF h.cls = "aead" THEN [x \in 1..NSlot |-> IF x = 1 /\ LegalNew(h) THEN [phase |-> "aad", aad |-> <<>>, ct |-> <<>>] ELSE Gone]
            ELSE [x \in 1..NSlot |-> IF x <= 1 /\ LegalNew(h) THEN [phase |-> "ready", aad |-> h.aad, ct |-> <<>>] ELSE Gone]
\* keystream for data bytes [pos, pos+n) (block 1 onwards)
Crypt(h, pos, data) == XorBytes(data, KeyStream("ietf", h.rounds, h.key, h.nonce, Ctr(1), pos, Len(data)))

ApplyInc(h, s, e) ==
  LET x == IF Has(e, "x") THEN e.x ELSE 1
      c == s[x]
  IN CASE e.op = "new" -> [st |-> s, out |-> IF LegalNew(h) THEN N ELSE P]
       [] e.op = "clone" -> [st |-> [s EXCEPT ![e.y] = c], out |-> N]
       [] e.op = "add_data" -> [st |-> [s EXCEPT ![x].aad = c.aad \o e.data], out |-> N]
       [] e.op = "to_encryption" -> [st |-> [s EXCEPT ![x].phase = "enc"], out |-> N]
       [] e.op = "to_decryption" -> [st |-> [s EXCEPT ![x].phase = "dec"], out |-> N]
       [] e.op \in {"encrypt", "encrypt_mut"} ->
            IF Has(e, "n") /\ e.n # Len(e.data) THEN [st |-> s, out |-> P]
            ELSE LET o == Crypt(h, Len(c.ct), e.data) IN [st |-> [s EXCEPT ![x].ct = c.ct \o o], out |-> V(o)]
       [] e.op \in {"decrypt", "decrypt_mut"} ->
            IF Has(e, "n") /\ e.n # Len(e.data) THEN [st |-> s, out |-> P]
            ELSE [st |-> [s EXCEPT ![x].ct = c.ct \o e.data], out |-> V(Crypt(h, Len(c.ct), e.data))]
       [] e.op = "finalize" ->
            LET tag == AeadTag(h.rounds, h.key, h.nonce, c.aad, c.ct)
            IN [st |-> [s EXCEPT ![x] = Gone], out |-> IF c.phase = "enc" THEN V(tag) ELSE V(<<IF e.tag = tag THEN 1 ELSE 0>>)]

\* one-shot object: may be used once (encrypt or decrypt); tag buffer must be 16 bytes, output as long as input
ApplyOne(h, s, e) ==
  LET x == IF Has(e, "x") THEN e.x ELSE 1
      c == s[x]
      shapeOk == (~Has(e, "n") \/ e.n = Len(e.data)) /\ (IF e.op = "encrypt" THEN (~Has(e, "taglen") \/ e.taglen = 16) ELSE Len(e.tag) = 16)
  IN CASE e.op = "new" -> [st |-> s, out |-> IF LegalNew(h) THEN N ELSE P]
       [] e.op = "clone" -> [st |-> [s EXCEPT ![2] = c], out |-> N]
       [] e.op \in {"encrypt", "decrypt"} ->
            IF c.phase # "ready" \/ ~shapeOk THEN [st |-> s, out |-> P]
            ELSE IF e.op = "encrypt"
                 THEN LET r == AeadEncrypt(h.rounds, h.key, h.nonce, c.aad, e.data) IN [st |-> [s EXCEPT ![x].phase = "used"], out |-> V(r[1] \o r[2])]
                 ELSE LET r == AeadDecrypt(h.rounds, h.key, h.nonce, c.aad, e.data, e.tag)
                      IN [st |-> [s EXCEPT ![x].phase = "used"], out |-> V(IF r[2] THEN <<1>> \o r[1] ELSE <<0>>)]

Apply(h, s, e) == IF h.cls = "aead" THEN ApplyInc(h, s, e) ELSE ApplyOne(h, s, e)
Init == hi \in 1..Len(Rec) /\ l = 1 /\ st = Fresh(Rec[hi]) /\ ok = TRUE /\ res = <<>>
Step == /\ ok /\ l <= Len(Rec[hi].ev)
        /\ res' = Apply(Rec[hi], st, Rec[hi].ev[l])
        /\ LET h == Rec[hi]
               e == h.ev[l]
               good == e.out.k = res'.out.k /\ e.out.v = res'.out.v
           IN /\ st' = IF good THEN res'.st ELSE st
              /\ ok' = good
              /\ IF good THEN TRUE ELSE PrintT(ToJson(<<"BAD", h.id, l, res'.out, e.out>>))
              /\ IF good /\ l = Len(h.ev) THEN PrintT(ToJson(<<"DONE", h.id, l>>)) ELSE TRUE
        /\ l' = l + 1 /\ UNCHANGED hi
Spec == Init /\ [][Step]_vars
=============================================================================
