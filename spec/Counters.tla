------------------------------ MODULE Counters ------------------------------
(* The word-boundary behaviour of the crate's multi-word counters (properties C20, C03) at design level.
   A counter is two words <<lo, hi>> of W bits (the code: W = 32 or 64); M = 2^W.
     * BLAKE2 byte counter  (hashing/blake2/mod.rs increment_counter):  t0 += inc; t1 += (t0 < inc)
     * ChaCha / Salsa 64-bit block counter (increment64 / Salsa increment): lo = lo + 1 wrapping; if lo = 0 then hi += 1 wrapping
     * IETF ChaCha 32-bit block counter (increment): lo = lo + 1 wrapping (wraps to block 0; hi is nonce material)
   Rust's `+=` is a *checked* addition in builds with overflow checks (debug profile, -C overflow-checks=on): it
   panics when the mathematical sum leaves the word.  `wrapping_add` never panics.  The property (C20) is: for every
   counter value whose successor is inside the counter's documented range (below M^2, i.e. 2^128 / 2^64 bytes or
   blocks), the step returns normally in every profile and the new value is old + inc modulo M^2.
   Add = "plus"     : as on the pinned tree (plain `+=` for BLAKE2)   -> TLC reports the panic at t0 + inc >= M (D10)
   Add = "wrapping" : as on the repaired tree *)
EXTENDS Integers, TLC
CONSTANTS W, Add, Profile, MaxInc     \* Profile: "checked" | "unchecked"
VARIABLES lo, hi, inc, kind, out
vars == <<lo, hi, inc, kind, out>>
M == 2 ^ W
\* one `a += b` of the source: the result word, or "panic"
PANIC == <<-1>>
PlusEq(a, b) == IF Add = "plus" /\ Profile = "checked" /\ a + b >= M THEN -1 ELSE (a + b) % M
Wrapping(a, b) == (a + b) % M
Blake2Step(t0, t1, n) ==
  LET a == PlusEq(t0, n) IN
  IF a = -1 THEN PANIC
  ELSE LET c == IF a < n THEN 1 ELSE 0
           b == PlusEq(t1, c)
       IN IF b = -1 THEN PANIC ELSE <<a, b>>
Inc64Step(l, h) == LET a == Wrapping(l, 1) IN <<a, IF a = 0 THEN Wrapping(h, 1) ELSE h>>
Inc32Step(l, h) == <<Wrapping(l, 1), h>>
Init == /\ lo \in 0..(M - 1) /\ hi \in 0..(M - 1) /\ inc \in 1..MaxInc /\ kind \in {"blake2", "inc64", "inc32"}
        /\ out = <<>>
Step == /\ out = <<>>
        /\ out' = CASE kind = "blake2" -> Blake2Step(lo, hi, inc)
                    [] kind = "inc64" -> Inc64Step(lo, hi)
                    [] kind = "inc32" -> Inc32Step(lo, hi)
        /\ UNCHANGED <<lo, hi, inc, kind>>
Spec == Init /\ [][Step]_vars
Val(c) == c[2] * M + c[1]
InRange == CASE kind = "blake2" -> Val(<<lo, hi>>) + inc < M * M       \* below 2^(2W) bytes
             [] kind = "inc64" -> TRUE                                   \* wraps modulo 2^(2W) by definition
             [] kind = "inc32" -> TRUE                                   \* wraps modulo 2^W by definition (RFC 8439 leaves it to the caller)
InvNoPanic == (out # <<>> /\ InRange) => out # PANIC
InvValue == (out # <<>> /\ InRange /\ out # PANIC) =>
              CASE kind = "blake2" -> Val(out) = Val(<<lo, hi>>) + inc
                [] kind = "inc64" -> Val(out) = (Val(<<lo, hi>>) + 1) % (M * M)
                [] kind = "inc32" -> out = <<(lo + 1) % M, hi>>
=============================================================================
