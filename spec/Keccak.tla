------------------------------- MODULE Keccak ------------------------------
(* FIPS 202: Keccak-f[1600] (3.2-3.3), the sponge construction (4), pad10*1 (5.1) and the
   SHA3-n / Keccak-n instances (6.1): capacity 2n bits, rate 200 - 2n/8 bytes, domain suffix
   01 for SHA-3 (first padding byte 0x06) and none for the original Keccak (0x01).
   Round constants and rotation offsets are derived from their definitions by
   tools/gen_consts.py (LFSR of 3.2.5; the (t+1)(t+2)/2 walk of 3.2.2). *)
EXTENDS Words
KRC == << <<1,0,0,0>>, <<32898,0,0,0>>, <<32906,0,0,32768>>, <<32768,32768,0,32768>>,
   <<32907,0,0,0>>, <<1,32768,0,0>>, <<32897,32768,0,32768>>, <<32777,0,0,32768>>,
   <<138,0,0,0>>, <<136,0,0,0>>, <<32777,32768,0,0>>, <<10,32768,0,0>>,
   <<32907,32768,0,0>>, <<139,0,0,32768>>, <<32905,0,0,32768>>, <<32771,0,0,32768>>,
   <<32770,0,0,32768>>, <<128,0,0,32768>>, <<32778,0,0,0>>, <<10,32768,0,32768>>,
   <<32897,32768,0,32768>>, <<32896,0,0,32768>>, <<1,32768,0,0>>, <<32776,32768,0,32768>> >>
KROT == <<0,1,62,28,27,36,44,6,55,20,3,10,43,25,39,41,45,15,21,8,18,2,61,56,14>>
Lane(s, x, y) == s[(x % 5) + 5 * (y % 5) + 1]
KRound(s, rc) ==
  LET C == TLCEval([x \in 0..4 |-> Xor64(Xor64(Xor64(Xor64(Lane(s,x,0), Lane(s,x,1)), Lane(s,x,2)), Lane(s,x,3)), Lane(s,x,4))])
      D == TLCEval([x \in 0..4 |-> Xor64(C[(x + 4) % 5], Rotl64(C[(x + 1) % 5], 1))])
      T == TLCEval([i \in 1..25 |-> Xor64(s[i], D[(i - 1) % 5])])                               \* theta
      \* rho and pi: B[y, 2x+3y] = rot(T[x,y], r[x,y]); solved for the source of lane (X, Y)
      Bm == TLCEval([i \in 1..25 |-> LET X == (i - 1) % 5  Y == (i - 1) \div 5
                                        x == ((Y + 2 * X) * 3) % 5  y == X
                                    IN Rotl64(Lane(T, x, y), KROT[x + 5 * y + 1])])
      Chi == TLCEval([i \in 1..25 |-> LET X == (i - 1) % 5  Y == (i - 1) \div 5
                                     IN Xor64(Lane(Bm, X, Y), And64(Not64(Lane(Bm, X + 1, Y)), Lane(Bm, X + 2, Y)))])
  IN TLCEval([i \in 1..25 |-> IF i = 1 THEN Xor64(Chi[1], rc) ELSE Chi[i]])                      \* iota
KeccakF(s) == FoldLeft(LAMBDA acc, r: KRound(acc, KRC[r]), s, Rng(1, 24))
\* the permutation on the 200-byte string form of the state
KeccakFBytes(b) == BytesOfLE64(KeccakF(WordsLE64(b)))
\* 5.1 pad10*1 on whole bytes after appending the domain bits: first byte ds, last byte |= 0x80
PadSponge(msg, r, ds) ==
  LET q == r - (Len(msg) % r)
  IN IF q = 1 THEN msg \o <<ds + 128>> ELSE msg \o <<ds>> \o Zeros(q - 2) \o <<128>>
Absorb(st, p, r) == FoldLeft(LAMBDA acc, blk: KeccakFBytes(XorBytes(acc, blk \o Zeros(200 - r))), st, Blocks(p, r))
\* output n <= r bytes (true for all eight fixed-length instances)
Sponge(msg, r, ds, n) == SubSeq(Absorb(Zeros(200), PadSponge(msg, r, ds), r), 1, n)
Sha3(n, msg)   == Sponge(msg, 200 - 2 * n, 6, n)      \* n = digest bytes: 28, 32, 48, 64
KeccakH(n, msg) == Sponge(msg, 200 - 2 * n, 1, n)
=============================================================================
