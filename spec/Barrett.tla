-------------------------------- MODULE Barrett ------------------------------
(* Barrett reduction as used by the 64-bit scalar back-end for 512-bit inputs (scalar64.rs barrett_reduce256, HAC 14.42 with radix
   b = 2^8 and k = 32 digits): for x < b^(2k) and b^(k-1) <= m < b^k, with mu = floor(b^(2k) / m):
       q3 = floor(floor(x / b^(k-1)) * mu / b^(k+1));  r = (x mod b^(k+1)) - (q3 * m mod b^(k+1));  if r < 0 then r += b^(k+1);
       subtract m while r >= m.
   Checked exhaustively by TLC for small radix / digit counts and *every* modulus in range and every x: the result is x mod m, the
   wrap-around branch r < 0 occurs, and at most two final subtractions are ever needed (the code performs exactly two conditional
   ones).  Variant MaxSub = 1 (one conditional subtraction only) must be rejected (./check selftest).
   The branch classes (wrap, number of subtractions) are the ones lib/props/curvecommon.py barrett_class selects inputs for. *)
EXTENDS Integers, TLC
CONSTANTS B, K, MaxSub
VARIABLES m, x, out, cls
vars == <<m, x, out, cls>>
Pow(a, n) == a ^ n
Init == m \in Pow(B, K - 1)..(Pow(B, K) - 1) /\ x \in 0..(Pow(B, 2 * K) - 1) /\ out = -1 /\ cls = <<>>
Reduce(mm, xx) ==
  LET mu == Pow(B, 2 * K) \div mm
      q3 == ((xx \div Pow(B, K - 1)) * mu) \div Pow(B, K + 1)
      r1 == xx % Pow(B, K + 1)
      r2 == (q3 * mm) % Pow(B, K + 1)
      wrap == r1 < r2
      r0 == IF wrap THEN r1 - r2 + Pow(B, K + 1) ELSE r1 - r2
      s1 == IF MaxSub >= 1 /\ r0 >= mm THEN r0 - mm ELSE r0          \* conditional subtractions, as many as the code performs
      s2 == IF MaxSub >= 2 /\ s1 >= mm THEN s1 - mm ELSE s1
      n == (IF r0 >= mm THEN 1 ELSE 0) + (IF r0 - mm >= mm THEN 1 ELSE 0) + (IF r0 - 2 * mm >= mm THEN 1 ELSE 0)
  IN <<s2, wrap, n>>
StepPlain == out = -1 /\ LET r == Reduce(m, x) IN out' = r[1] /\ cls' = <<r[2], r[3]>> /\ ~r[2] /\ r[3] = 0 /\ UNCHANGED <<m, x>>
StepWrap  == out = -1 /\ LET r == Reduce(m, x) IN out' = r[1] /\ cls' = <<r[2], r[3]>> /\ r[2] /\ UNCHANGED <<m, x>>
StepSub1  == out = -1 /\ LET r == Reduce(m, x) IN out' = r[1] /\ cls' = <<r[2], r[3]>> /\ ~r[2] /\ r[3] = 1 /\ UNCHANGED <<m, x>>
StepSub2  == out = -1 /\ LET r == Reduce(m, x) IN out' = r[1] /\ cls' = <<r[2], r[3]>> /\ ~r[2] /\ r[3] >= 2 /\ UNCHANGED <<m, x>>
Next == StepPlain \/ StepWrap \/ StepSub1 \/ StepSub2
InvValue == out # -1 => out = x % m
InvTwoSubtractions == out # -1 => cls[2] <= 2
=============================================================================
