------------------------------- MODULE Words -------------------------------
(* Machine words for TLC, whose integers are 32-bit Java ints with overflow detection.
   A 32-bit word is <<hi16, lo16>>; a 64-bit word is four 16-bit limbs, little-endian
   <<l0, l1, l2, l3>>.  &, |, ^^ come from the CommunityModules Bitwise module (Java
   overrides).  Every constructed vector is forced with TLCEval: TLC function
   constructors are lazy and are re-evaluated on every application otherwise. *)
EXTENDS Integers, Sequences, SequencesExt, Bitwise, TLC, TLCExt

Rng(a, b) == [i \in 1..(b - a + 1) |-> a + i - 1]          \* <<a, a+1, ..., b>>
Zeros(n) == [i \in 1..n |-> 0]
MinI(a, b) == IF a < b THEN a ELSE b
MaxI(a, b) == IF a > b THEN a ELSE b
XorBytes(a, b) == TLCEval([i \in 1..Len(a) |-> a[i] ^^ b[i]])
\* number of B-sized blocks in s (Len(s) a multiple of B) as a sequence of blocks
Blocks(s, B) == [k \in 1..(Len(s) \div B) |-> SubSeq(s, B * (k - 1) + 1, B * k)]
Flatten(ss) == FoldLeft(LAMBDA a, b : a \o b, <<>>, ss)

---------------------------------------------------------------------------
\* 32-bit words <<hi, lo>>
W32(n) == <<n \div 65536, n % 65536>>                        \* n < 2^31
Xor32(a, b) == <<a[1] ^^ b[1], a[2] ^^ b[2]>>
And32(a, b) == <<a[1] & b[1], a[2] & b[2]>>
Or32(a, b)  == <<a[1] | b[1], a[2] | b[2]>>
Not32(a)    == <<65535 - a[1], 65535 - a[2]>>
Add32(a, b) == LET lo == a[2] + b[2]
                   hi == a[1] + b[1] + (lo \div 65536)
               IN <<hi % 65536, lo % 65536>>
Rotr32(a, n) ==                                               \* 0 <= n < 32
   LET b == IF n >= 16 THEN <<a[2], a[1]>> ELSE a
       k == n % 16
   IN IF k = 0 THEN b
      ELSE LET p == 2^k  q == 2^(16-k)
           IN << (b[1] \div p) + (b[2] % p) * q, (b[2] \div p) + (b[1] % p) * q >>
Rotl32(a, n) == Rotr32(a, (32 - n) % 32)
Shr32(a, n) ==
   IF n >= 16 THEN <<0, a[1] \div 2^(n-16)>>
   ELSE LET p == 2^n q == 2^(16-n) IN << a[1] \div p, (a[2] \div p) + (a[1] % p) * q >>
\* byte (de)serialisation; o is a 0-based byte offset into b
BE32(b, o) == << b[o+1] * 256 + b[o+2], b[o+3] * 256 + b[o+4] >>
LE32(b, o) == << b[o+4] * 256 + b[o+3], b[o+2] * 256 + b[o+1] >>
BytesBE32(w) == << w[1] \div 256, w[1] % 256, w[2] \div 256, w[2] % 256 >>
BytesLE32(w) == << w[2] % 256, w[2] \div 256, w[1] % 256, w[1] \div 256 >>
WordsBE32(b) == TLCEval([i \in 1..(Len(b) \div 4) |-> BE32(b, 4 * (i - 1))])
WordsLE32(b) == TLCEval([i \in 1..(Len(b) \div 4) |-> LE32(b, 4 * (i - 1))])
BytesOfBE32(ws) == TLCEval([k \in 1..(4 * Len(ws)) |-> BytesBE32(ws[((k - 1) \div 4) + 1])[((k - 1) % 4) + 1]])
BytesOfLE32(ws) == TLCEval([k \in 1..(4 * Len(ws)) |-> BytesLE32(ws[((k - 1) \div 4) + 1])[((k - 1) % 4) + 1]])

---------------------------------------------------------------------------
\* 64-bit words <<l0, l1, l2, l3>> (16-bit limbs, least significant first)
Z64 == <<0, 0, 0, 0>>
W64(n) == <<n % 65536, (n \div 65536) % 65536, 0, 0>>         \* n < 2^31
Xor64(a, b) == <<a[1] ^^ b[1], a[2] ^^ b[2], a[3] ^^ b[3], a[4] ^^ b[4]>>
And64(a, b) == <<a[1] & b[1], a[2] & b[2], a[3] & b[3], a[4] & b[4]>>
Not64(a) == <<65535 - a[1], 65535 - a[2], 65535 - a[3], 65535 - a[4]>>
Add64(a, b) == LET s1 == a[1] + b[1]  s2 == a[2] + b[2] + (s1 \div 65536)
                   s3 == a[3] + b[3] + (s2 \div 65536)  s4 == a[4] + b[4] + (s3 \div 65536)
               IN <<s1 % 65536, s2 % 65536, s3 % 65536, s4 % 65536>>
Rotl64(a, n) ==                                               \* 0 <= n < 64
  LET q == n \div 16   k == n % 16
      b == <<a[((0 - q) % 4) + 1], a[((1 - q) % 4) + 1], a[((2 - q) % 4) + 1], a[((3 - q) % 4) + 1]>>
  IN IF k = 0 THEN b
     ELSE LET p == 2^k  r == 2^(16-k)
          IN << ((b[1] % r) * p) + (b[4] \div r), ((b[2] % r) * p) + (b[1] \div r),
                ((b[3] % r) * p) + (b[2] \div r), ((b[4] % r) * p) + (b[3] \div r) >>
Rotr64(a, n) == Rotl64(a, (64 - n) % 64)
Shr64(a, n) == LET q == n \div 16  k == n % 16
                   b == [i \in 1..4 |-> IF i + q <= 4 THEN a[i + q] ELSE 0]
               IN IF k = 0 THEN <<b[1], b[2], b[3], b[4]>> ELSE
                  LET p == 2^k  r == 2^(16 - k) IN
                  << (b[1] \div p) + (b[2] % p) * r, (b[2] \div p) + (b[3] % p) * r,
                     (b[3] \div p) + (b[4] % p) * r, (b[4] \div p) >>
LE64(b, o) == << b[o+1] + 256 * b[o+2], b[o+3] + 256 * b[o+4], b[o+5] + 256 * b[o+6], b[o+7] + 256 * b[o+8] >>
BE64(b, o) == << b[o+7] * 256 + b[o+8], b[o+5] * 256 + b[o+6], b[o+3] * 256 + b[o+4], b[o+1] * 256 + b[o+2] >>
BytesLE64(w) == << w[1] % 256, w[1] \div 256, w[2] % 256, w[2] \div 256, w[3] % 256, w[3] \div 256, w[4] % 256, w[4] \div 256 >>
BytesBE64(w) == << w[4] \div 256, w[4] % 256, w[3] \div 256, w[3] % 256, w[2] \div 256, w[2] % 256, w[1] \div 256, w[1] % 256 >>
WordsLE64(b) == TLCEval([i \in 1..(Len(b) \div 8) |-> LE64(b, 8 * (i - 1))])
WordsBE64(b) == TLCEval([i \in 1..(Len(b) \div 8) |-> BE64(b, 8 * (i - 1))])
BytesOfLE64(ws) == TLCEval([k \in 1..(8 * Len(ws)) |-> BytesLE64(ws[((k - 1) \div 8) + 1])[((k - 1) % 8) + 1]])
BytesOfBE64(ws) == TLCEval([k \in 1..(8 * Len(ws)) |-> BytesBE64(ws[((k - 1) \div 8) + 1])[((k - 1) % 8) + 1]])

---------------------------------------------------------------------------
\* Lengths and counters that do not fit a TLC integer: a natural as little-endian
\* base-256 digit list of fixed width (all our inputs have Len < 2^27, so n * 8 < 2^31).
LenBytesLE(n, width) == [i \in 1..width |-> IF i <= 4 THEN (n \div (256 ^ (i - 1))) % 256 ELSE 0]
BitLenBE(n, width) == LET bits == n * 8 IN
   [i \in 1..width |-> LET j == width - i IN IF j <= 3 THEN (bits \div (256 ^ j)) % 256 ELSE 0]
BitLenLE(n, width) == LET bits == n * 8 IN
   [i \in 1..width |-> LET j == i - 1 IN IF j <= 3 THEN (bits \div (256 ^ j)) % 256 ELSE 0]
\* length field of a Merkle-Damgard padding when `off` bytes (16 little-endian bytes, an arbitrary 128-bit count) were processed before the
\* n bytes at hand: ((off + n) * 8) mod 2^(8 * width), little- or big-endian.  Used with the verification hook that presets the count.
AddSmallLE(bytes, n) == LET st == FoldLeft(LAMBDA acc, b : LET v == b + acc[1] IN <<v \div 256, Append(acc[2], v % 256)>>, <<n, <<>> >>, bytes) IN st[2]
Shl3LE(bytes) == LET st == FoldLeft(LAMBDA acc, b : LET v == b * 8 + acc[1] IN <<v \div 256, Append(acc[2], v % 256)>>, <<0, <<>> >>, bytes) IN st[2]
LenFieldLE(off, n, width) == SubSeq(Shl3LE(AddSmallLE(off, n)), 1, width)
LenFieldBE(off, n, width) == Reverse(LenFieldLE(off, n, width))
=============================================================================
