CONSTANTS W = 3  Add = "plus"  Profile = "checked"  MaxInc = 7
INIT Init
NEXT Step
INVARIANT InvNoPanic
INVARIANT InvValue
CHECK_DEADLOCK FALSE
