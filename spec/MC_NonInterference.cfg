CONSTANTS Form = "ct"  N = 3  Vals = {0, 1, 2}
INIT Init
NEXT Next
INVARIANT Lockstep
CHECK_DEADLOCK FALSE
