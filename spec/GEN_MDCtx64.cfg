CONSTANTS B = 64  LB = 8  MaxFed = 400  MaxOps = 4  NCtx = 2  Lens = {0, 1, 55, 56, 63, 64, 65, 129}  Gen = TRUE
INIT Init
NEXT Next
INVARIANT InvBuffer
INVARIANT InvDigest
INVARIANT Emit
CHECK_DEADLOCK FALSE
