------------------------------- MODULE Fe25519 -----------------------------
(* GF(2^255 - 19) on 20 radix-2^13 limbs (BigNat), and RFC 7748 X25519.
   Field elements are always kept canonical (in [0, p)), so equality of values is equality of
   limb lists.  Decoding follows RFC 7748 section 5: bit 255 is masked, the value is reduced
   modulo p (non-canonical encodings are accepted). *)
EXTENDS BigNat
NL == 20
Pad20(x) == PadTo(x, NL)
\* limbs (any length <= 41) -> 20 limbs, value < 2^260, congruent modulo p   (2^260 = 32 * 2^255 = 608 mod p)
RECURSIVE FoldP(_)
FoldP(x) ==
  IF Len(x) <= NL THEN Pad20(x)
  ELSE LET n == Len(x)
           cols == [i \in 1..NL |-> x[i] + (IF NL + i <= n THEN 608 * x[NL + i] ELSE 0)]
           c == Carry(cols)
       IN IF c[NL+1] = 0 THEN SubSeq(c, 1, NL) ELSE FoldP(c)
\* canonical representative in [0,p): fold bits >= 255 twice (19 * top), then one conditional subtraction
Canon(x20) ==
  LET top == x20[NL] \div 256
      y == Carry([i \in 1..NL |-> IF i = 1 THEN x20[1] + 19 * top ELSE IF i = NL THEN x20[NL] % 256 ELSE x20[i]])
      top2 == y[NL] \div 256
      z == Carry([i \in 1..NL |-> IF i = 1 THEN y[1] + 19 * top2 ELSE IF i = NL THEN y[NL] % 256 ELSE y[i]])
      t == Carry([i \in 1..NL |-> IF i = 1 THEN z[1] + 19 ELSE z[i]])
  IN IF t[NL] >= 256 THEN [i \in 1..NL |-> IF i = NL THEN t[NL] - 256 ELSE t[i]] ELSE SubSeq(z, 1, NL)
Red(cols) == Canon(FoldP(Carry(cols)))
PLimbs == [i \in 1..NL |-> IF i = 1 THEN 8173 ELSE IF i = NL THEN 255 ELSE 8191]          \* p = 2^255 - 19
FAdd(a, b) == Red([i \in 1..NL |-> a[i] + b[i]])
FSub(a, b) == Red([i \in 1..NL |-> a[i] + PLimbs[i] - b[i]])
FMul(a, b) ==
  Red([k \in 1..(2*NL - 1) |->
         LET lo == MaxI(1, k + 1 - NL)   hi == MinI(k, NL)
         IN FoldLeft(LAMBDA acc, i: acc + a[i] * b[k + 1 - i], 0, Rng(lo, hi))])
FSq(a) == FMul(a, a)
FMulSmall(a, s) == Red([i \in 1..NL |-> a[i] * s])          \* s < 2^17
FOne == [i \in 1..NL |-> IF i = 1 THEN 1 ELSE 0]
FZero == [i \in 1..NL |-> 0]
FNeg(a) == FSub(FZero, a)
FIsNeg(a) == a[1] % 2 = 1                                   \* "negative" = least significant bit of the canonical value
\* bytes (32, little-endian)
FromBytes(b) == Canon(LimbsOfBits(SubSeq(BitsOf(b), 1, 255), NL))      \* bit 255 ignored, value reduced mod p
FromBytesFull(b) == Canon(FoldP(LimbsOfBits(BitsOf(b), NL)))           \* all 256 bits, reduced mod p
ToBytes(x) == BytesOfLimbs(x, 32)
\* x^e for an exponent given as limbs with nbits significant bits (MSB first square-and-multiply)
FPow(x, e, nbits) == FoldLeft(LAMBDA acc, i: LET s == FSq(acc) IN IF BitL(e, nbits - i) = 1 THEN FMul(s, x) ELSE s, FOne, Rng(1, nbits))
PM2 == [i \in 1..NL |-> IF i = 1 THEN 8171 ELSE IF i = NL THEN 255 ELSE 8191]            \* p - 2
FInv(x) == FPow(x, PM2, 255)                                \* 0 maps to 0
E58 == [i \in 1..NL |-> IF i = 1 THEN 8189 ELSE IF i = NL THEN 31 ELSE 8191]              \* (p - 5) / 8 = 2^252 - 3
FPow22523(x) == FPow(x, E58, 252)
\* ---- RFC 7748 section 5
ScalarBit(k, t) == (k[(t \div 8) + 1] \div 2^(t % 8)) % 2
Clamp(k) == [i \in 1..32 |-> IF i = 1 THEN k[1] - (k[1] % 8) ELSE IF i = 32 THEN (k[32] % 64) + 64 ELSE k[i]]
X25519(kraw, ubytes) ==
  LET k == Clamp(kraw)
      x1 == FromBytes(ubytes)
      step(s, i) ==
        LET t == 254 - i
            kt == ScalarBit(k, t)
            sw == (s.swap + kt) % 2
            x2 == IF sw = 1 THEN s.x3 ELSE s.x2
            x3 == IF sw = 1 THEN s.x2 ELSE s.x3
            z2 == IF sw = 1 THEN s.z3 ELSE s.z2
            z3 == IF sw = 1 THEN s.z2 ELSE s.z3
            A == FAdd(x2, z2)
            AA == FSq(A)
            B == FSub(x2, z2)
            BB == FSq(B)
            E == FSub(AA, BB)
            C == FAdd(x3, z3)
            D == FSub(x3, z3)
            DA == FMul(D, A)
            CB == FMul(C, B)
        IN [x2 |-> FMul(AA, BB), z2 |-> FMul(E, FAdd(AA, FMulSmall(E, 121665))),
            x3 |-> FSq(FAdd(DA, CB)), z3 |-> FMul(x1, FSq(FSub(DA, CB))), swap |-> kt]
      fin == FoldLeft(step, [x2 |-> FOne, z2 |-> FZero, x3 |-> x1, z3 |-> FOne, swap |-> 0], Rng(0, 254))
      x2f == IF fin.swap = 1 THEN fin.x3 ELSE fin.x2
      z2f == IF fin.swap = 1 THEN fin.z3 ELSE fin.z2
  IN ToBytes(FMul(x2f, FInv(z2f)))
BasePointU == <<9>> \o Zeros(31)
=============================================================================
