INIT Init
NEXT Step
CHECK_DEADLOCK FALSE
