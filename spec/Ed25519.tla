------------------------------- MODULE Ed25519 -----------------------------
(* RFC 8032 (PureEdDSA, Ed25519): the group order L and arithmetic modulo L, the twisted Edwards
   curve -x^2 + y^2 = 1 + d x^2 y^2 over GF(2^255-19) with the complete unified addition law in
   extended coordinates (used for both addition and doubling), point encoding/decoding (5.1.2,
   5.1.3), key generation (5.1.5), signing (5.1.6) and the verification equation (5.1.7).
   Constants are derived from their definitions (d = -121665/121666, sqrt(-1) = 2^((p-1)/4),
   base point y = 4/5 with even x) by the generator of this file, not copied from the crate.
   Decoding is specified as the property states it ("decodes to a curve point"): y is the low
   255 bits reduced modulo p, x is recovered, and the encoding is rejected only when no x exists. *)
EXTENDS Fe25519, SHA2
LL == <<5101,1966,1687,1222,1409,3691,3038,7124,7929,166,0,0,0,0,0,0,0,0,0,32>>                \* L = 2^252 + 27742317777372353535851937790883648493
DD == <<6307,6859,4740,5787,5982,3157,1287,2472,4106,3,6694,3827,1943,928,3635,8142,2927,1905,219,164>>                \* d
D2 == <<4441,5527,1289,3383,3773,6315,2574,4944,20,7,5196,7655,3886,1856,7270,8092,5855,3810,438,72>>               \* 2d
SQRTM1 == <<176,4213,2514,7222,3150,4668,5311,213,792,6522,5609,7159,2451,1664,3245,7137,4033,1026,201,87>>           \* sqrt(-1)
BasePX == <<5402,6446,6179,3162,3221,5081,5270,3090,3271,841,5911,7085,799,4721,6914,2687,3438,5790,6733,66>>
BasePY == <<1624,4915,6553,3276,1638,4915,6553,3276,1638,4915,6553,3276,1638,4915,6553,3276,1638,4915,6553,204>>
\* ---------- integers modulo L (20 limbs)
ModL(x) == ModN(x, LL)
LtL(x20) == ~GeN(x20, LL)
ScalarOfBytes(b) == LimbsOfBytes(b, 20)            \* 32 bytes, not reduced
WideOfBytes(b) == LimbsOfBytes(b, 40)              \* 64 bytes
ReduceWide(b64) == BytesOfLimbs(ModL(WideOfBytes(b64)), 32)
MulAddL(a, b, c) == ModL(AddN(MulN(a, b), c))       \* (a * b + c) mod L
\* ---------- points in extended coordinates <<X, Y, Z, T>>
PAdd(p, q) ==
  LET A == FMul(FSub(p[2], p[1]), FSub(q[2], q[1]))
      B == FMul(FAdd(p[2], p[1]), FAdd(q[2], q[1]))
      C == FMul(FMul(p[4], D2), q[4])
      D == FMul(FAdd(p[3], p[3]), q[3])
      E == FSub(B, A)  F == FSub(D, C)  G == FAdd(D, C)  H == FAdd(B, A)
  IN <<FMul(E, F), FMul(G, H), FMul(F, G), FMul(E, H)>>
PNeg(p) == <<FNeg(p[1]), p[2], p[3], FNeg(p[4])>>
PDouble(p) == PAdd(p, p)
Ident == <<FZero, FOne, FOne, FZero>>
Bpt == <<BasePX, BasePY, FOne, FMul(BasePX, BasePY)>>
\* k * P for k given as limbs, by MSB-first double-and-add over nbits bits
SMulBits(k, p, nbits) == FoldLeft(LAMBDA acc, i: LET d2 == PAdd(acc, acc) IN IF BitL(k, nbits - i) = 1 THEN PAdd(d2, p) ELSE d2, Ident, Rng(1, nbits))
SMul(k, p) == SMulBits(k, p, 13 * Len(k))
SMulB(k) == SMul(k, Bpt)
Affine(p) == LET zi == FInv(p[3]) IN <<FMul(p[1], zi), FMul(p[2], zi)>>
PEq(p, q) == FMul(p[1], q[3]) = FMul(q[1], p[3]) /\ FMul(p[2], q[3]) = FMul(q[2], p[3])
Encode(p) == LET a == Affine(p)  yb == ToBytes(a[2])
             IN [i \in 1..32 |-> IF i = 32 THEN yb[32] + 128 * (a[1][1] % 2) ELSE yb[i]]
OnCurve(x, y) == FSub(FSq(y), FSq(x)) = FAdd(FOne, FMul(DD, FMul(FSq(x), FSq(y))))
\* decoding: <<ok, point>>
Decode(b) ==
  LET sign == b[32] \div 128
      y == FromBytes(b)
      yy == FSq(y)
      u == FSub(yy, FOne)
      v == FAdd(FMul(DD, yy), FOne)
      v3 == FMul(FSq(v), v)
      v7 == FMul(FSq(v3), v)
      x0 == FMul(FMul(u, v3), FPow22523(FMul(u, v7)))
      vxx == FMul(v, FSq(x0))
      ok1 == vxx = u
      ok2 == vxx = FNeg(u)
      x1 == IF ok1 THEN x0 ELSE FMul(x0, SQRTM1)
      x == IF (x1[1] % 2) # sign THEN FNeg(x1) ELSE x1
  IN IF ok1 \/ ok2 THEN <<TRUE, <<x, y, FOne, FMul(x, y)>> >> ELSE <<FALSE, Ident>>
\* ---------- RFC 8032 5.1.5 - 5.1.7
ClampEd(h) == [i \in 1..32 |-> IF i = 1 THEN h[1] - (h[1] % 8) ELSE IF i = 32 THEN (h[32] % 64) + 64 ELSE h[i]]
ExtendedSecret(seed) == LET h == Sha512(seed) IN ClampEd(SubSeq(h, 1, 32)) \o SubSeq(h, 33, 64)       \* clamped scalar || prefix
PublicOfExtended(ext) == Encode(SMulB(ScalarOfBytes(SubSeq(ext, 1, 32))))
PublicKey(seed) == PublicOfExtended(ExtendedSecret(seed))
\* signature with the extended secret (scalar || prefix) and the public key bytes A that are hashed
SignExt(ext, A, msg) ==
  LET a == ScalarOfBytes(SubSeq(ext, 1, 32))
      prefix == SubSeq(ext, 33, 64)
      r == ModL(WideOfBytes(Sha512(prefix \o msg)))
      Rb == Encode(SMulB(r))
      h == ModL(WideOfBytes(Sha512(Rb \o A \o msg)))
  IN Rb \o BytesOfLimbs(MulAddL(h, a, r), 32)
Sign(seed, msg) == LET ext == ExtendedSecret(seed) IN SignExt(ext, PublicOfExtended(ext), msg)
Verify(msg, pk, sig) ==
  LET Rb == SubSeq(sig, 1, 32)
      S == ScalarOfBytes(SubSeq(sig, 33, 64))
      dA == Decode(pk)
      h == ModL(WideOfBytes(Sha512(Rb \o pk \o msg)))
  IN /\ LtL(S)                                   \* S canonical (cheapest conjunct first; TLC short-circuits)
     /\ \E i \in 1..32 : pk[i] # 0
     /\ dA[1]
     /\ Encode(PAdd(SMulB(S), SMul(h, PNeg(dA[2])))) = Rb
\* Ed25519 public key -> X25519: u = (1 + y) / (1 - y), y = low 255 bits reduced
EdToMontU(pk) == LET y == FromBytes(pk) IN ToBytes(FMul(FAdd(FOne, y), FInv(FSub(FOne, y))))
Exchange(pk, seed) == X25519(SubSeq(ExtendedSecret(seed), 1, 32), EdToMontU(pk))
=============================================================================
