------------------------------- MODULE Argon2 ------------------------------
(* RFC 9106: Argon2d (y=0), Argon2i (y=1), Argon2id (y=2), versions 0x10 and 0x13.
   H0 (3.2), the variable-length hash H' (3.3), memory filling with the three reference-area
   cases and the address blocks of the data-independent passes (3.4), the compression function
   G built from the BLAKE2b round with the multiplication 2*lo(a)*lo(b) (3.5-3.6), finalisation.
   64-bit word = 4 x 16-bit limbs (little-endian); block = 128 words.  Written from the RFC. *)
EXTENDS Blake2
LE32B(n) == <<n % 256, (n \div 256) % 256, (n \div 65536) % 256, (n \div 16777216) % 256>>
\* lo32(a)*lo32(b) as 64-bit word
MulLo(a, b) ==
  LET ab == <<a[1] % 256, a[1] \div 256, a[2] % 256, a[2] \div 256>>
      bb == <<b[1] % 256, b[1] \div 256, b[2] % 256, b[2] \div 256>>
      col(k) == FoldLeft(LAMBDA acc, i: acc + (IF k - i >= 0 /\ k - i <= 3 THEN ab[i + 1] * bb[k - i + 1] ELSE 0), 0, <<0, 1, 2, 3>>)
      step(acc, k) == LET v == col(k) + acc[1] IN <<v \div 256, Append(acc[2], v % 256)>>
      r == FoldLeft(step, <<0, <<>> >>, <<0, 1, 2, 3, 4, 5, 6>>)
      by == Append(r[2], r[1])          \* 8 bytes
  IN <<by[1] + 256 * by[2], by[3] + 256 * by[4], by[5] + 256 * by[6], by[7] + 256 * by[8]>>
FBlaMka(x, y) == LET m == MulLo(x, y) IN Add64(Add64(x, y), Add64(m, m))
GBa(v, a, b, c, d) ==
  LET va1 == FBlaMka(v[a], v[b])
      vd1 == Rotr64(Xor64(v[d], va1), 32)
      vc1 == FBlaMka(v[c], vd1)
      vb1 == Rotr64(Xor64(v[b], vc1), 24)
      va2 == FBlaMka(va1, vb1)
      vd2 == Rotr64(Xor64(vd1, va2), 16)
      vc2 == FBlaMka(vc1, vd2)
      vb2 == Rotr64(Xor64(vb1, vc2), 63)
  IN TLCEval([i \in 1..16 |-> IF i = a THEN va2 ELSE IF i = b THEN vb2 ELSE IF i = c THEN vc2 ELSE IF i = d THEN vd2 ELSE v[i]])
Perm(v) == GBa(GBa(GBa(GBa(GBa(GBa(GBa(GBa(v, 1,5,9,13), 2,6,10,14), 3,7,11,15), 4,8,12,16), 1,6,11,16), 2,7,12,13), 3,8,9,14), 4,5,10,15)
XorBlk(x, y) == TLCEval([i \in 1..128 |-> Xor64(x[i], y[i])])
ZeroBlk == TLCEval([i \in 1..128 |-> Z64])
\* G(X, Y) = P-rows, P-columns of R = X xor Y, then xor R
GComp(x, y) ==
  LET r == XorBlk(x, y)
      rows == TLCEval([i \in 0..7 |-> Perm(TLCEval([j \in 1..16 |-> r[16 * i + j]]))])
      q == TLCEval([k \in 1..128 |-> rows[(k - 1) \div 16][((k - 1) % 16) + 1]])
      \* column i uses words 2i, 2i+1, 2i+16, 2i+17, ... (0-based)
      colidx(i, j) == 2 * i + 16 * ((j - 1) \div 2) + ((j - 1) % 2) + 1        \* j in 1..16 -> 1-based index
      cols == TLCEval([i \in 0..7 |-> Perm(TLCEval([j \in 1..16 |-> q[colidx(i, j)]]))])
      \* inverse map: word k (0-based kk) belongs to column ((kk % 16) \div 2), position j = 2*(kk \div 16) + (kk % 2) + 1
      z == TLCEval([k \in 1..128 |-> LET kk == k - 1 IN cols[(kk % 16) \div 2][2 * (kk \div 16) + (kk % 2) + 1]])
  IN XorBlk(z, r)
\* H' variable-length hash
HPrime(a, T) ==
  IF T <= 64 THEN Blake2b(LE32B(T) \o a, <<>>, T)
  ELSE LET r == ((T + 31) \div 32) - 2
           v1 == Blake2b(LE32B(T) \o a, <<>>, 64)
           st == FoldLeft(LAMBDA acc, i: LET v == Blake2b(acc[1], <<>>, 64) IN <<v, acc[2] \o SubSeq(v, 1, 32)>>, <<v1, SubSeq(v1, 1, 32)>>, Rng(1, r - 1))
       IN st[2] \o Blake2b(st[1], <<>>, T - 32 * r)
BlkOfBytes(b) == TLCEval([i \in 1..128 |-> LE64(b, 8 * (i - 1))])
BytesOfBlk(x) == BytesOfLE64(x)
ALo32(w) == <<w[1], w[2]>>
AHi32(w) == <<w[3], w[4]>>
\* small helpers on 32-bit values as <<lo16, hi16>>
\* x = (J1*J1) >> 32 ; y = (W * x) >> 32 with W < 2^31 nat ; all via byte columns
MulHi32(a, b) == LET m == MulLo(<<a[1], a[2], 0, 0>>, <<b[1], b[2], 0, 0>>) IN <<m[3], m[4]>>
NatOf32(a) == a[1] + 65536 * a[2]     \* only valid when < 2^31
\* J2 mod p for small p: ((hi*65536) + lo) mod p computed without overflow
Mod32(a, p) == ((a[2] % p) * (65536 % p) + (a[1] % p)) % p
\* RFC 9106 3.4.2: the index (column within its lane) of the reference block for the block at pass r, slice s, index i of a lane of
\* length q = 4 * SL, chosen by the 32-bit value J1 (as <<lo16, hi16>>); same = the reference lane is the current lane
RefIndex(q, SL, r, s, i, same, J1) ==
  LET W == IF r = 0 THEN (IF s = 0 THEN i - 1 ELSE IF same THEN s * SL + i - 1 ELSE IF i = 0 THEN s * SL - 1 ELSE s * SL)
           ELSE (IF same THEN q - SL + i - 1 ELSE IF i = 0 THEN q - SL - 1 ELSE q - SL)
      x == MulHi32(J1, J1)
      yy == NatOf32(MulHi32(<<W % 65536, W \div 65536>>, x))
      zz == W - 1 - yy
      st == IF r # 0 /\ s # 3 THEN (s + 1) * SL ELSE 0
  IN (st + zz) % q
\* geometry from the requested memory m (KiB) and parallelism p: m' = 4p * floor(m / 4p) blocks, lanes of q = m' / p, segments of q / 4
Geometry(mreq, p) == LET mp == 4 * p * (mreq \div (4 * p)) IN [blocks |-> mp, lane |-> mp \div p, seg |-> (mp \div p) \div 4]
Argon2(y, ver, t, mreq, p, pwd, salt, key, ad, T) ==
  LET mp == 4 * p * (mreq \div (4 * p))
      q == mp \div p
      SL == q \div 4
      H0 == Blake2b(LE32B(p) \o LE32B(T) \o LE32B(mreq) \o LE32B(t) \o LE32B(ver) \o LE32B(y) \o LE32B(Len(pwd)) \o pwd \o LE32B(Len(salt)) \o salt \o LE32B(Len(key)) \o key \o LE32B(Len(ad)) \o ad, <<>>, 64)
      idx(l, c) == l * q + c + 1
      mem0 == TLCEval([k \in 1..(p * q) |-> LET l == (k - 1) \div q  c == (k - 1) % q IN
                 IF c <= 1 THEN BlkOfBytes(HPrime(H0 \o LE32B(c) \o LE32B(l), 1024)) ELSE ZeroBlk])
      AddrBlk(r, l, s, ctr) == LET z == [i \in 1..128 |-> IF i = 1 THEN W64(r) ELSE IF i = 2 THEN W64(l) ELSE IF i = 3 THEN W64(s)
                                           ELSE IF i = 4 THEN W64(mp) ELSE IF i = 5 THEN W64(t) ELSE IF i = 6 THEN W64(y) ELSE IF i = 7 THEN W64(ctr) ELSE Z64]
                               IN GComp(ZeroBlk, GComp(ZeroBlk, z))
      Segment(mem, r, s, l) ==
        LET indep == (y = 1) \/ (y = 2 /\ r = 0 /\ s < 2)
            start == IF r = 0 /\ s = 0 THEN 2 ELSE 0
            stepi(acc, i) ==
              LET m == acc[1]
                  ab == IF indep /\ (acc[2] = <<>> \/ i % 128 = 0) THEN AddrBlk(r, l, s, (i \div 128) + 1) ELSE acc[2]
                  c == s * SL + i
                  prev == IF c = 0 THEN q - 1 ELSE c - 1
                  pr == IF indep THEN ab[(i % 128) + 1] ELSE m[idx(l, prev)][1]
                  J1 == ALo32(pr)   J2 == AHi32(pr)
                  rl == IF r = 0 /\ s = 0 THEN l ELSE Mod32(J2, p)
                  same == rl = l
                  rc == RefIndex(q, SL, r, s, i, same, J1)
                  nb0 == GComp(m[idx(l, prev)], m[idx(rl, rc)])
                  nb == IF ver = 19 /\ r > 0 THEN XorBlk(nb0, m[idx(l, c)]) ELSE nb0
              IN << TLCEval([m EXCEPT ![idx(l, c)] = nb]), TLCEval(ab) >>
        IN FoldLeft(stepi, <<mem, <<>> >>, [i \in 1..(SL - start) |-> start + i - 1])[1]
      order == [k \in 1..(t * 4 * p) |-> << (k - 1) \div (4 * p), ((k - 1) \div p) % 4, (k - 1) % p >>]
      memF == FoldLeft(LAMBDA m, rsl: Segment(m, rsl[1], rsl[2], rsl[3]), mem0, order)
      C == FoldLeft(LAMBDA acc, l: XorBlk(acc, memF[idx(l, q - 1)]), memF[idx(0, q - 1)], [l \in 1..(p - 1) |-> l])
  IN HPrime(BytesOfBlk(C), T)
=============================================================================
