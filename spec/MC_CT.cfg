CONSTANTS W = 8  Derived = "negate"  Bytes = {0}
INIT Init
NEXT Next
INVARIANT InvWord
INVARIANT InvDerived
CHECK_DEADLOCK FALSE
