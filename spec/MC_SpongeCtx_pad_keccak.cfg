CONSTANTS Rate = 4  DSLEN = 0  DLen = 2  MaxFed = 13  MaxOps = 3  NCtx = 1  Lens = {0, 1, 2, 3, 4, 5, 6, 7, 8, 9, 10, 11, 12, 13}  Gen = FALSE
INIT Init
NEXT Next
INVARIANT InvAbsorb
INVARIANT InvDigest
CHECK_DEADLOCK FALSE
