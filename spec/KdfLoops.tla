------------------------------- MODULE KdfLoops ------------------------------
(* Object machines of the two output loops of the HMAC-based KDFs (hkdf.rs hkdf_expand, pbkdf2.rs pbkdf2 / calculate_block),
   transcribed from the Rust control flow over a free-algebra PRF: a PRF value is the term <<"prf", input>>, XOR of PRF values is the
   multiset (here: sorted sequence with multiplicities cancelling in pairs) of its operands.  H = PRF output length, W = width of
   HKDF's block counter in bits (the code: u8, W = 8), both small here so that TLC explores every output length.
     HKDF  (RFC 5869 2.3): OKM = first L octets of T(1) || T(2) || ..., T(i) = PRF(T(i-1) || info || i), T(0) empty; L <= (2^W - 1) * H,
           beyond that the call must be refused - never a wrapped counter byte, never a truncated result.
     PBKDF2 (RFC 8018 5.2): DK = first L octets of T_1 || T_2 || ..., T_i = U_1 xor ... xor U_c, U_1 = PRF(salt || INT(i)), U_j = PRF(U_j-1).
   One initial state per (function, L, c); one step computes the code's answer; the invariant compares it with the definition. *)
EXTENDS Integers, Sequences, SequencesExt, FiniteSets, TLC
CONSTANTS H, W, MaxC, LoopFrom      \* LoopFrom = 2: `for _ in 2..c` as in the source; 1: the off-by-one variant TLC must reject
VARIABLES fn, len, c, out, done
vars == <<fn, len, c, out, done>>
Prf(x) == <<"prf", x>>
Oct(v, k) == <<"octet", v, k>>                                  \* k-th octet (1..H) of PRF value v
Octets(v, n) == [k \in 1..n |-> Oct(v, k)]                      \* the first n octets
CeilDiv(a, b) == (a + b - 1) \div b
\* ---- the RFC definitions
\* T(i) is named by its index, <<"T", i>>: it stands for PRF(T(i-1) || info || i)
HkdfDef(L) == IF L > (2 ^ W - 1) * H THEN "refuse"
              ELSE [k \in 1..L |-> Oct(<<"T", ((k - 1) \div H) + 1>>, ((k - 1) % H) + 1)]
\* U_j of block i as the term <<"U", i, j>>; T_i = set of its c operands (all distinct terms, so XOR = the set)
PbkdfDef(L, cc) == [k \in 1..L |-> Oct({<<"U", ((k - 1) \div H) + 1, j>> : j \in 1..cc}, ((k - 1) % H) + 1)]
\* ---- hkdf_expand, transcribed: n: u8 (here W bits) with checked_add; t re-fed when n != 1
HkdfCode(L) ==
  LET nchunks == CeilDiv(L, H)
      \* for chunk in okm.chunks_mut(os): n = n.checked_add(1).expect(..)
      overflow == nchunks > 2 ^ W - 1
      chunk(i) == LET cl == IF i < nchunks THEN H ELSE L - H * (nchunks - 1)
                      \* mac.input(t) if n != 1; mac.input(info); mac.input([n]) -> T(n) = PRF(T(n-1) || info || n): named <<"T", n>>
                  IN Octets(<<"T", i>>, cl)
  IN IF overflow THEN "refuse" ELSE FoldLeft(LAMBDA acc, i : acc \o chunk(i), <<>>, [i \in 1..nchunks |-> i])
\* ---- pbkdf2 / calculate_block, transcribed: first iteration into block, second (if c > 1) via scratch, then `for _ in 2..c`
XorIn(S, t) == IF t \in S THEN S \ {t} ELSE S \cup {t}          \* xor-accumulation of distinct terms
CalcBlock(i, cc) ==
  LET b1 == {<<"U", i, 1>>}                                      \* mac.input(salt); mac.input(idx); raw_result(block)
      b2 == IF cc > 1 THEN XorIn(b1, <<"U", i, 2>>) ELSE b1      \* scratch = PRF(block); block ^= scratch
      \* for _ in 2..c: scratch = PRF(scratch); block ^= scratch   (iterations 3..c)
      rest == FoldLeft(LAMBDA acc, j : XorIn(acc, <<"U", i, j>>), b2, [j \in 1..(IF cc > LoopFrom THEN cc - LoopFrom ELSE 0) |-> j + 2])
  IN rest
PbkdfCode(L, cc) ==
  LET nchunks == CeilDiv(L, H)
      chunk(i) == LET cl == IF i < nchunks THEN H ELSE L - H * (nchunks - 1) IN Octets(CalcBlock(i, cc), cl)
  IN FoldLeft(LAMBDA acc, i : acc \o chunk(i), <<>>, [i \in 1..nchunks |-> i])
Init == /\ fn \in {"hkdf", "pbkdf2"} /\ len \in 0..(2 ^ W * H + 1) /\ c \in 1..MaxC /\ out = <<>> /\ done = FALSE
        /\ (fn = "hkdf" => c = 1) /\ (fn = "pbkdf2" => len <= 3 * H + 1)
Hkdf == fn = "hkdf" /\ ~done /\ done' = TRUE /\ out' = <<HkdfCode(len)>> /\ UNCHANGED <<fn, len, c>>
Pbkdf == fn = "pbkdf2" /\ ~done /\ done' = TRUE /\ out' = <<PbkdfCode(len, c)>> /\ UNCHANGED <<fn, len, c>>
Next == Hkdf \/ Pbkdf
InvHkdf == (fn = "hkdf" /\ done) => out[1] = HkdfDef(len)
InvPbkdf == (fn = "pbkdf2" /\ done) => out[1] = PbkdfDef(len, c)
=============================================================================
