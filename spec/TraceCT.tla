------------------------------ MODULE TraceCT ------------------------------
(* Trace validation for constant_time.rs, mac::MacResult and chacha20poly1305::Tag (property C18).
   Every event is one evaluation of a helper on recorded operands; the expected outcome is the
   helper's *plain meaning* (CT.tla proves, at word width 8, that the branch-free formulas of the
   source have these meanings).  64-bit operands are logged as 8 little-endian bytes, arrays of
   u64 / i32 as the concatenation of their elements' little-endian bytes, choices as 0 / 1.
   Event: [fn, f, a, b, c].  Outcome: <<0|1>> for predicates, bytes for selectors. *)
EXTENDS Integers, Sequences, SequencesExt, TLC, Json, IOUtils
Rec == ndJsonDeserialize(IOEnv.TRACE)
VARIABLES hi, l, ok, res
vars == <<hi, l, ok, res>>
Has(r, f) == f \in DOMAIN r
V(b) == [k |-> "v", v |-> b]
Bit(p) == IF p THEN 1 ELSE 0
B(p) == V(<<Bit(p)>>)
AllZero(s) == \A i \in 1..Len(s) : s[i] = 0
\* big-endian comparison of equally long byte strings (leading byte most significant)
LtBE(x, y) == \E i \in 1..Len(x) : x[i] < y[i] /\ \A j \in 1..(i - 1) : x[j] = y[j]
\* numbers logged as little-endian bytes
LtLE(x, y) == LtBE(Reverse(x), Reverse(y))
Pred2(f, eq, lt) ==      \* the six binary predicates from "equal" and "less"
  CASE f \in {"ct_eq", "eq"} -> eq [] f \in {"ct_ne", "ne"} -> ~eq [] f = "ct_lt" -> lt [] f = "ct_ge" -> ~lt
    [] f = "ct_gt" -> (~lt /\ ~eq) [] f = "ct_le" -> (lt \/ eq)
Apply(e) ==
  CASE e.fn = "u8all" ->      \* one unary helper on every byte value: result bit for v = 0..255
         V([i \in 1..256 |-> Bit(IF e.f = "ct_zero" THEN i - 1 = 0 ELSE i - 1 # 0)])
    [] e.fn = "u8row" ->      \* one binary helper on (a, v) for every byte value v = 0..255
         V([i \in 1..256 |-> Bit(IF e.f = "ct_eq" THEN e.a = i - 1 ELSE e.a # i - 1)])
    [] e.fn \in {"u64", "arr8", "sl8", "arr64", "sl64"} /\ e.f \in {"ct_zero", "ct_nonzero"} ->
         B(IF e.f = "ct_zero" THEN AllZero(e.a) ELSE ~AllZero(e.a))
    [] e.fn = "u64" -> B(Pred2(e.f, e.a = e.b, LtLE(e.a, e.b)))
    [] e.fn \in {"arr8", "sl8"} -> B(Pred2(e.f, e.a = e.b, LtBE(e.a, e.b)))     \* arrays read as big-endian numbers
    [] e.fn \in {"arr64", "sl64"} -> B(Pred2(e.f, e.a = e.b, FALSE))             \* only eq / ne exist
    [] e.fn = "choice" ->
         B(CASE e.f = "negate" -> e.a = 0 [] e.f = "and" -> (e.a = 1 /\ e.b = 1) [] e.f = "or" -> (e.a = 1 \/ e.b = 1)
             [] e.f = "xor" -> (e.a # e.b) [] e.f = "is_true" -> e.a = 1 [] e.f = "is_false" -> e.a = 0 [] e.f = "into_bool" -> e.a = 1)
    [] e.fn = "opt" -> V(IF e.c = 1 THEN <<1>> \o e.a ELSE <<0>>)                 \* CtOption: Some(payload) iff present
    [] e.fn \in {"swap64", "swap32"} -> V(IF e.c = 1 THEN e.b \o e.a ELSE e.a \o e.b)
    [] e.fn \in {"set64", "set32"} -> V(IF e.c = 1 THEN e.b ELSE e.a)
    [] e.fn \in {"mac", "tag"} -> B(Pred2(e.f, e.a = e.b, FALSE))                 \* true exactly when lengths and all bytes match
Init == hi \in 1..Len(Rec) /\ l = 1 /\ ok = TRUE /\ res = <<>>
Step == /\ ok /\ l <= Len(Rec[hi].ev)
        /\ res' = Apply(Rec[hi].ev[l])
        /\ LET h == Rec[hi]
               e == h.ev[l]
               good == e.out.k = res'.k /\ e.out.v = res'.v
           IN /\ ok' = good
              /\ IF good THEN TRUE ELSE PrintT(ToJson(<<"BAD", h.id, l, res', e.out>>))
              /\ IF good /\ l = Len(h.ev) THEN PrintT(ToJson(<<"DONE", h.id, l>>)) ELSE TRUE
        /\ l' = l + 1 /\ UNCHANGED hi
Spec == Init /\ [][Step]_vars
=============================================================================
