CONSTANTS B = 4  M = 8  MaxFed = 13  MaxOps = 5  NCtx = 2  Keys = {0, 1, 4}  Lens = {0, 1, 3, 4, 5, 8, 9}  Gen = FALSE
INIT Init
NEXT Next
INVARIANT InvDigest
INVARIANT InvBuf
CHECK_DEADLOCK FALSE
