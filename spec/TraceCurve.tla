----------------------------- MODULE TraceCurve ----------------------------
(* Trace validation for X25519, Ed25519 and the public field / scalar / group arithmetic
   (properties C12, C13, C14, C15, C17).  Class "fn": one call per event; class "feprog": a
   straight-line program over four field-element registers whose every step is observed.
   The oracle: Fe25519.tla (GF(2^255-19), RFC 7748) and Ed25519.tla (RFC 8032, mod-L
   arithmetic, the Edwards group law with plain double-and-add). *)
EXTENDS Ed25519, Json, IOUtils
Rec == ndJsonDeserialize(IOEnv.TRACE)
VARIABLES hi, l, st, ok, res
vars == <<hi, l, st, ok, res>>
Has(r, f) == f \in DOMAIN r
V(b) == [k |-> "v", v |-> b]
N == [k |-> "n", v |-> <<>>]
\* derived Ord of a byte-array wrapper: lexicographic from the first byte
LexLt(x, y) == \E i \in 1..Len(x) : x[i] < y[i] /\ \A j \in 1..(i - 1) : x[j] = y[j]
P == [k |-> "p", v |-> <<>>]
Bool(b) == V(<<IF b THEN 1 ELSE 0>>)
Sc(b) == ScalarOfBytes(b)
ApplyFn(e) ==
  CASE e.op \in {"curve25519", "x25519_dh"} -> V(X25519(e.n, e.p))
    [] e.op \in {"curve25519_base", "x25519_base"} -> V(X25519(e.n, BasePointU))
    [] e.op = "x25519_try_from" -> IF Len(e.bytes) = 32 THEN V(e.bytes) ELSE P
    [] e.op = "ed_keypair" -> LET pk == PublicKey(e.seed) IN V(e.seed \o pk \o pk \o e.seed \o pk)
    [] e.op = "ed_extended_to_public" -> V(PublicOfExtended(e.ext))
    [] e.op = "ed_signature" ->
         IF Has(e, "keypair") THEN V(SignExt(ExtendedSecret(SubSeq(e.keypair, 1, 32)), SubSeq(e.keypair, 33, 64), e.msg))
         ELSE V(Sign(e.seed, e.msg))
    [] e.op = "ed_signature_extended" ->
         \* when the seed the extended secret came from is logged, the signature must be the seed's signature
         IF Has(e, "seed") THEN (IF e.ext = ExtendedSecret(e.seed) THEN V(Sign(e.seed, e.msg)) ELSE [k |-> "script-error", v |-> <<>>])
         ELSE V(SignExt(e.ext, PublicOfExtended(e.ext), e.msg))
    [] e.op = "ed_verify" -> Bool(Verify(e.msg, e.pk, e.sig))
    [] e.op = "ed_exchange" -> V(Exchange(e.pk, e.sk))
    [] e.op = "scalar_reduce_wide" -> V(ReduceWide(e.bytes))
    [] e.op = "scalar_canonical" -> IF LtL(Sc(e.bytes)) THEN V(<<1>> \o e.bytes) ELSE V(<<0>>)
    [] e.op = "scalar_roundtrip" -> V(e.bytes)
    [] e.op = "ge_scalarmult_base" -> V(Encode(SMulB(Sc(e.s))))
    [] e.op = "ge_double_scalarmult" ->
         LET d == Decode(e.A) IN IF d[1] THEN V(<<1>> \o Encode(PAdd(SMul(Sc(e.a), d[2]), SMulB(Sc(e.b))))) ELSE V(<<0>>)
    [] e.op = "ge_decode" -> LET d == Decode(e.bytes) IN IF d[1] THEN LET enc == Encode(d[2]) IN V(<<1>> \o enc \o enc) ELSE V(<<0>>)
    [] e.op = "ge_ops2" ->
         LET p == SMulB(Sc(e.p))   ep == Encode(p)   id == Encode(Ident)
         IN V(Encode(PNeg(p)) \o ep \o ep \o ep \o id \o id \o ep \o ep)
    [] e.op = "scalar_muladd" -> V(BytesOfLimbs(MulAddL(Sc(e.a), Sc(e.b), Sc(e.c)), 32))      \* (a * b + c) mod L, operands any 256-bit values
    [] e.op = "scalar_consts" ->
         LET one == <<1>> \o Zeros(31)   z == Zeros(32)
         IN V(z \o one \o <<IF e.bytes = z THEN 1 ELSE 0, IF e.bytes = one THEN 1 ELSE 0, 1, IF e.bytes = one THEN 0 ELSE 1>>)
    [] e.op = "fe_consts" -> V(ToBytes(FZero) \o ToBytes(FOne) \o ToBytes(SQRTM1) \o ToBytes(DD) \o ToBytes(D2))
    [] e.op = "x25519_conv" ->
         V(e.a \o e.a \o e.a \o e.b \o e.b \o e.b \o <<IF e.a = e.b THEN 1 ELSE 0, IF LexLt(e.a, e.b) THEN 1 ELSE 0, IF LexLt(e.b, e.a) THEN 1 ELSE 0>>)
    [] e.op = "ed_consts" -> V(<<32, 32, 32, 64, 64, 64>>)
    [] e.op = "ge_ops" ->
         LET p == SMulB(Sc(e.p))   q == SMulB(Sc(e.q))
             d == Encode(PDouble(p))   s == Encode(PAdd(p, q))   m == Encode(PAdd(p, PNeg(q)))
             dd == PDouble(p)
         IN V(d \o d \o d \o d \o d \o d \o s \o s \o m \o m \o Encode(PAdd(q, dd)) \o Encode(PAdd(q, PNeg(dd))) \o Encode(PDouble(dd)))
\* field-expression programs: registers hold canonical values; every step returns the canonical bytes of its result
ApplyFe(s, e) ==
  LET a == IF Has(e, "a") THEN s[e.a] ELSE FZero
      b == IF Has(e, "b") THEN s[e.b] ELSE FZero
      put(v) == [st |-> [s EXCEPT ![e.d] = v], out |-> V(ToBytes(v))]
  IN CASE e.op = "from_bytes" -> put(FromBytes(e.bytes))
       [] e.op = "add_v" -> put(FAdd(a, b))                \* the by-value operators of the 32-bit back-end: the same operations
       [] e.op = "sub_v" -> put(FSub(a, b))
       [] e.op = "mul_v" -> put(FMul(a, b))
       [] e.op = "add" -> put(FAdd(a, b))
       [] e.op = "sub" -> put(FSub(a, b))
       [] e.op = "neg" -> put(FNeg(a))
       [] e.op = "mul" -> put(FMul(a, b))
       [] e.op = "square" -> put(FSq(a))
       [] e.op = "square_and_double" -> put(FAdd(FSq(a), FSq(a)))
       [] e.op = "mul_small" -> put(FMulSmall(a, IF Has(e, "nine") /\ e.nine = 1 THEN 9 ELSE 121666))      \* the ladders' constants (verification hook)
       [] e.op = "square_repeatdly" -> put(FoldLeft(LAMBDA acc, i: FSq(acc), a, Rng(1, e.n)))
       [] e.op = "invert" -> put(FInv(a))
       [] e.op = "pow25523" -> put(FPow22523(a))
       [] e.op = "recanon" -> put(a)                      \* Fe::from_bytes(x.to_bytes()): the same field value
       [] e.op = "is_negative" -> [st |-> s, out |-> Bool(FIsNeg(a))]
       [] e.op = "is_nonzero" -> [st |-> s, out |-> Bool(a # FZero)]
       [] e.op = "eq" -> [st |-> s, out |-> Bool(a = b)]
       [] e.op = "ne" -> [st |-> s, out |-> V(<<IF a = b THEN 0 ELSE 1, IF a = b THEN 0 ELSE 1>>)]
       [] e.op = "to_bytes" -> [st |-> s, out |-> V(ToBytes(a))]
Apply(h, s, e) == IF h.cls = "feprog" THEN ApplyFe(s, e) ELSE [st |-> s, out |-> ApplyFn(e)]
Fresh(h) == <<FZero, FOne, FZero, FOne>>
Init == hi \in 1..Len(Rec) /\ l = 1 /\ st = Fresh(Rec[hi]) /\ ok = TRUE /\ res = <<>>
Step == /\ ok /\ l <= Len(Rec[hi].ev)
        /\ res' = Apply(Rec[hi], st, Rec[hi].ev[l])
        /\ LET h == Rec[hi]
               e == h.ev[l]
               good == e.out.k = res'.out.k /\ e.out.v = res'.out.v
           IN /\ st' = IF good THEN res'.st ELSE st
              /\ ok' = good
              /\ IF good THEN TRUE ELSE PrintT(ToJson(<<"BAD", h.id, l, res'.out, e.out>>))
              /\ IF good /\ l = Len(h.ev) THEN PrintT(ToJson(<<"DONE", h.id, l>>)) ELSE TRUE
        /\ l' = l + 1 /\ UNCHANGED hi
Spec == Init /\ [][Step]_vars
=============================================================================
