------------------------------- MODULE BigNat ------------------------------
(* Natural numbers beyond TLC's 32-bit integers: little-endian sequences of radix-2^13 limbs.
   Two limbs multiply to < 2^26 and up to 31 such column terms stay below 2^31.  Carry uses
   floor division, so it also absorbs negative columns as long as the total is non-negative. *)
EXTENDS Words
R == 8192
Carry(cols) ==
  LET step(acc, c) == LET v == c + acc[1] IN <<v \div R, Append(acc[2], v % R)>>
      res == FoldLeft(step, <<0, <<>> >>, cols)
  IN Append(res[2], res[1])
PadTo(x, n) == IF Len(x) >= n THEN x ELSE x \o Zeros(n - Len(x))
TrimTo(x, n) == SubSeq(x, 1, n)
\* bits <-> limbs <-> bytes
BitsOf(bytes) == TLCEval([i \in 1..(8 * Len(bytes)) |-> (bytes[((i - 1) \div 8) + 1] \div 2^((i - 1) % 8)) % 2])
LimbsOfBits(bits, n) ==
  TLCEval([l \in 1..n |-> FoldLeft(LAMBDA acc, j: acc + (IF 13*(l-1) + j <= Len(bits) THEN bits[13*(l-1) + j] * 2^(j-1) ELSE 0), 0, Rng(1, 13))])
LimbsOfBytes(b, n) == LimbsOfBits(BitsOf(b), n)                 \* little-endian bytes -> n limbs (value must fit)
BytesOfLimbs(x, nb) ==                                          \* low nb bytes of x, little-endian
  LET bit(i) == IF ((i-1) \div 13) + 1 > Len(x) THEN 0 ELSE (x[((i-1) \div 13) + 1] \div 2^((i-1) % 13)) % 2
  IN TLCEval([k \in 1..nb |-> FoldLeft(LAMBDA acc, j: acc + bit(8*(k-1) + j) * 2^(j-1), 0, Rng(1, 8))])
BitL(x, t) == IF (t \div 13) + 1 > Len(x) THEN 0 ELSE (x[(t \div 13) + 1] \div 2^(t % 13)) % 2      \* bit t (0-based) of limbs x
\* comparison (same length)
CmpN(a, b) == FoldLeft(LAMBDA acc, i: IF acc # 0 THEN acc ELSE IF a[i] > b[i] THEN 1 ELSE IF a[i] < b[i] THEN -1 ELSE 0,
                       0, [j \in 1..Len(a) |-> Len(a) + 1 - j])
GeN(a, b) == CmpN(a, b) >= 0
IsZeroN(a) == \A i \in 1..Len(a) : a[i] = 0
\* arithmetic
AddN(a, b) == LET n == MaxI(Len(a), Len(b))  x == PadTo(a, n)  y == PadTo(b, n) IN Carry([i \in 1..n |-> x[i] + y[i]])
SubN(a, b) == LET n == Len(a)  y == PadTo(b, n) IN TrimTo(Carry([i \in 1..n |-> a[i] - y[i]]), n)          \* a >= b
MulN(a, b) == Carry([k \in 1..(Len(a) + Len(b) - 1) |->
                 LET lo == MaxI(1, k + 1 - Len(b))
                     hi == MinI(k, Len(a))
                 IN FoldLeft(LAMBDA acc, i: acc + a[i] * b[k + 1 - i], 0, Rng(lo, hi))])
MulSmallN(a, s) == Carry([i \in 1..Len(a) |-> a[i] * s])                                                      \* s < 2^17
ShlLimbs(x, q) == Zeros(q) \o x
\* x mod m by shift-and-subtract (m has Len(m) limbs, top limb possibly zero; result has Len(m) limbs)
ModN(x0, m) ==
  LET nm == Len(m)
      n == MaxI(Len(x0), nm) + 1
      x == PadTo(x0, n)
      mj(j) == Carry([i \in 1..nm |-> m[i] * 2^j])                   \* m * 2^j, nm+1 limbs
      steps == [t \in 1..((n - nm) * 13) |-> << n - nm - 1 - ((t - 1) \div 13), 12 - ((t - 1) % 13) >>]
      red(acc, sj) == LET cand == PadTo(ShlLimbs(mj(sj[2]), sj[1]), n)
                      IN IF Len(cand) = n /\ GeN(acc, cand) THEN SubN(acc, cand) ELSE acc
  IN TrimTo(FoldLeft(red, x, steps), nm)
=============================================================================
