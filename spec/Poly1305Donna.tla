--------------------------- MODULE Poly1305Donna ---------------------------
(* The 26-bit-limb ("donna") Poly1305 of src/poly1305.rs, transcribed statement by statement: new (r masks, pad),
   block (h += m; the 25 products with the 5x folded terms; the partial carry chain that leaves h1 un-normalised),
   finish (full carry, h + -p, masked select, packing to 4 x 32 bits, + pad).  A 26-bit limb is exactly two radix-2^13
   BigNat limbs, so `>> 26` drops two limbs and `& 0x3ffffff` keeps two.
   Two uses:
     * refinement: for every input handed to it, DonnaMac = Poly1305Mac (the RFC 8439 definition in Poly1305.tla);
     * case analysis: Cov(key, msg) names the carry / wrap / select branches the input drives the limb code through.
       The orchestrator crafts inputs for every class (keys with r = r0 < 2^26, for which the pre-carry accumulator is
       exactly (m + 2^128) * r0 and can be chosen digit by digit) and TLC confirms the class of each; a class that no
       input reaches is a vacuous run (tool error).  The recorded tags of the real crate for the same inputs are
       validated against Poly1305Mac by TraceMac as usual.
   Trace form (one event per history): [op |-> "mac", key, data, out]. *)
EXTENDS Poly1305, Json, IOUtils
Rec == ndJsonDeserialize(IOEnv.TRACE)
VARIABLES hi, l, ok
vars == <<hi, l, ok>>

BitsOfNat(n, w) == [i \in 1..w |-> (n \div 2^(i - 1)) % 2]
Limb(bits, from, w) == LimbsOfBits([i \in 1..w |-> IF from + i <= Len(bits) THEN bits[from + i] ELSE 0], 2)     \* bits from .. from+w-1 (0-based), as a 26-bit limb
AndMask(bits26, mask) == LET mb == BitsOfNat(mask, 26) IN [i \in 1..26 |-> bits26[i] * mb[i]]
Lo26(x) == TrimTo(PadTo(x, 2), 2)                                   \* x & 0x3ffffff
Hi26(x) == IF Len(x) <= 2 THEN <<0>> ELSE SubSeq(x, 3, Len(x))      \* x >> 26
NonZero(x) == ~IsZeroN(x)
Sum5(a, b, c, d, e) == AddN(AddN(AddN(a, b), AddN(c, d)), e)
Five == <<5>>

\* Poly1305::new: the five limbs of r with donna's masks
RLimbs(key) ==
  LET kb == BitsOf(SubSeq(key, 1, 16))
      lim(k, mask) == LimbsOfBits(AndMask([i \in 1..26 |-> IF 26 * k + i <= 128 THEN kb[26 * k + i] ELSE 0], mask), 2)
  IN <<lim(0, 67108863), lim(1, 67108611), lim(2, 67092735), lim(3, 66076671), lim(4, 1048575)>>
\* one block: m = 16 bytes, hibit = 1 for a full block or the padded final block's marker handling (hibit 0 when finalized)
Block(h, r, m, hibit) ==
  LET mb == BitsOf(m)
      top == AddN(Limb(mb, 104, 24), IF hibit = 1 THEN <<0, 2048>> ELSE <<0>>)        \* (.. >> 8) | (1 << 24)
      h0 == AddN(h[1], Limb(mb, 0, 26))   h1 == AddN(h[2], Limb(mb, 26, 26))   h2 == AddN(h[3], Limb(mb, 52, 26))
      h3 == AddN(h[4], Limb(mb, 78, 26))  h4 == AddN(h[5], top)
      r0 == r[1]  r1 == r[2]  r2 == r[3]  r3 == r[4]  r4 == r[5]
      s1 == MulN(r1, Five)  s2 == MulN(r2, Five)  s3 == MulN(r3, Five)  s4 == MulN(r4, Five)
      d0 == Sum5(MulN(h0, r0), MulN(h1, s4), MulN(h2, s3), MulN(h3, s2), MulN(h4, s1))
      d1 == Sum5(MulN(h0, r1), MulN(h1, r0), MulN(h2, s4), MulN(h3, s3), MulN(h4, s2))
      d2 == Sum5(MulN(h0, r2), MulN(h1, r1), MulN(h2, r0), MulN(h3, s4), MulN(h4, s3))
      d3 == Sum5(MulN(h0, r3), MulN(h1, r2), MulN(h2, r1), MulN(h3, r0), MulN(h4, s4))
      d4 == Sum5(MulN(h0, r4), MulN(h1, r3), MulN(h2, r2), MulN(h3, r1), MulN(h4, r0))
      e1 == AddN(d1, Hi26(d0))   e2 == AddN(d2, Hi26(e1))   e3 == AddN(d3, Hi26(e2))   e4 == AddN(d4, Hi26(e3))
      c4 == Hi26(e4)
      f0 == AddN(Lo26(d0), MulN(c4, Five))                               \* h0 += c * 5
      g1 == AddN(Lo26(e1), Hi26(f0))                                     \* h1 += c   (not normalised)
  IN [h |-> <<Lo26(f0), g1, Lo26(e2), Lo26(e3), Lo26(e4)>>,
      cov |-> (IF NonZero(c4) THEN {"blk_wrap"} ELSE {}) \cup (IF NonZero(Hi26(f0)) THEN {"blk_h0_carry"} ELSE {})
              \cup (IF NonZero(Hi26(g1)) THEN {"blk_h1_unnormalised"} ELSE {})]
\* finish after the last block: full carry, compare with p, select, pack, add pad
Finish(h, key) ==
  LET c1 == Hi26(h[2])            a1 == Lo26(h[2])
      t2 == AddN(h[3], c1)        c2 == Hi26(t2)   a2 == Lo26(t2)
      t3 == AddN(h[4], c2)        c3 == Hi26(t3)   a3 == Lo26(t3)
      t4 == AddN(h[5], c3)        c4 == Hi26(t4)   a4 == Lo26(t4)
      t0 == AddN(h[1], MulN(c4, Five))   c0 == Hi26(t0)   a0 == Lo26(t0)
      b1 == AddN(a1, c0)                                                  \* h1 += c (again not normalised)
      \* h + 5 - 2^130: g4 >= 0 iff h >= p
      u0 == AddN(a0, Five)       u1 == AddN(b1, Hi26(u0))   u2 == AddN(a2, Hi26(u1))   u3 == AddN(a3, Hi26(u2))   u4 == AddN(a4, Hi26(u3))
      ge == NonZero(Hi26(u4))                                             \* g4 did not go negative: h >= p
      w == IF ge THEN <<Lo26(u0), Lo26(u1), Lo26(u2), Lo26(u3), Lo26(u4)>> ELSE <<a0, b1, a2, a3, a4>>
      \* packing: limbs OR-ed together at 26-bit strides; un-normalised bits beyond 26 of a limb would be OR-ed, not added
      packed == LET wb(k, i) == IF i < 0 \/ i > 31 THEN 0 ELSE BitL(PadTo(w[k], 3), i)
                    orbit(j) == IF \E k \in 1..5 : wb(k, j - 26 * (k - 1)) = 1 THEN 1 ELSE 0
                IN LimbsOfBits([j \in 1..128 |-> orbit(j - 1)], 10)
      pad == LimbsOfBytes(SubSeq(key, 17, 32), 10)
      \* the closing addition is done in four 32-bit words with a carry: the case where a carry arrives at a word whose sum is already 0xffffffff
      pb == BytesOfLimbs(packed, 16)   sb == SubSeq(key, 17, 32)
      low(b, k) == LimbsOfBytes(SubSeq(b, 1, 4 * k), 10)
      word(b, k) == LimbsOfBytes(SubSeq(b, 4 * k + 1, 4 * k + 4), 3)
      cin(k) == BytesOfLimbs(AddN(low(pb, k), low(sb, k)), 4 * k + 1)[4 * k + 1] # 0
      sat(k) == TrimTo(PadTo(AddN(word(pb, k), word(sb, k)), 3), 3) = <<8191, 8191, 63>>
  IN [tag |-> BytesOfLimbs(AddN(packed, pad), 16),
      cov |-> (IF NonZero(c1) THEN {"fin_c1"} ELSE {}) \cup (IF NonZero(c2) THEN {"fin_c2"} ELSE {}) \cup (IF NonZero(c3) THEN {"fin_c3"} ELSE {})
              \cup (IF NonZero(c4) THEN {"fin_wrap"} ELSE {}) \cup (IF NonZero(c0) THEN {"fin_h0_carry"} ELSE {})
              \cup (IF NonZero(c0) /\ a1[1] % 2 = 1 THEN {"fin_h0_carry_h1_odd"} ELSE {})
              \cup (IF ge THEN {"sel_ge_p"} ELSE {"sel_lt_p"}) \cup (IF NonZero(Hi26(w[2])) THEN {"pack_h1_overflow"} ELSE {})
              \cup (IF \E k \in 1..3 : cin(k) /\ sat(k) THEN {"pad_carry_into_saturated"} ELSE {})]
Donna(key, msg) ==
  LET r == RLimbs(key)
      nfull == Len(msg) \div 16
      rem == Len(msg) % 16
      z == <<<<0>>, <<0>>, <<0>>, <<0>>, <<0>>>>
      step(acc, k) == LET b == Block(acc.h, r, SubSeq(msg, 16 * (k - 1) + 1, 16 * k), 1) IN [h |-> b.h, cov |-> acc.cov \cup b.cov]
      a1 == FoldLeft(step, [h |-> z, cov |-> {}], Rng(1, nfull))
      a2 == IF rem = 0 THEN a1
            ELSE LET last == SubSeq(msg, 16 * nfull + 1, Len(msg)) \o <<1>> \o Zeros(15 - rem)
                     b == Block(a1.h, r, last, 0)
                 IN [h |-> b.h, cov |-> a1.cov \cup b.cov]
      f == Finish(a2.h, key)
  IN [tag |-> f.tag, cov |-> a2.cov \cup f.cov]

CovSeq(S) == LET names == <<"blk_wrap", "blk_h0_carry", "blk_h1_unnormalised", "fin_c1", "fin_c2", "fin_c3", "fin_wrap", "fin_h0_carry", "fin_h0_carry_h1_odd", "sel_ge_p", "sel_lt_p", "pack_h1_overflow", "pad_carry_into_saturated">>
               IN SelectSeq(names, LAMBDA n : n \in S)
Init == hi \in 1..Len(Rec) /\ l = 1 /\ ok = TRUE
Step == /\ ok /\ l <= Len(Rec[hi].ev)
        /\ LET h == Rec[hi]
               e == h.ev[l]
               d == Donna(e.key, e.data)
               ref == Poly1305Mac(e.key, e.data)
               good == d.tag = ref                                     \* the limb algorithm refines the RFC definition on this input
           IN /\ ok' = good
              /\ PrintT(ToJson(<<"COV", h.id, CovSeq(d.cov)>>))
              /\ IF good THEN TRUE ELSE PrintT(ToJson(<<"BAD", h.id, l, [k |-> "v", v |-> ref], [k |-> "v", v |-> d.tag]>>))
              /\ IF good /\ l = Len(h.ev) THEN PrintT(ToJson(<<"DONE", h.id, l>>)) ELSE TRUE
        /\ l' = l + 1 /\ UNCHANGED hi
Spec == Init /\ [][Step]_vars
=============================================================================
