-------------------------------- MODULE AEAD -------------------------------
(* RFC 8439 2.6 and 2.8: AEAD_CHACHA20_POLY1305 (generalised to the round count and the
   16-/32-byte keys the crate accepts): one-time key = first 32 bytes of block 0, data
   encrypted from block 1, tag = Poly1305(otk, aad | pad16 | ct | pad16 | le64(|aad|) | le64(|ct|)). *)
EXTENDS Salsa, Poly1305
Pad16(x) == Zeros((16 - (Len(x) % 16)) % 16)
Ctr(n) == <<n % 65536, n \div 65536, 0, 0>>                  \* n < 2^31
OneTimeKey(rounds, key, nonce) == SubSeq(KSBlock("ietf", rounds, key, nonce, Ctr(0)), 1, 32)
MacData(aad, ct) == aad \o Pad16(aad) \o ct \o Pad16(ct) \o LenBytesLE(Len(aad), 8) \o LenBytesLE(Len(ct), 8)
AeadTag(rounds, key, nonce, aad, ct) == Poly1305Mac(OneTimeKey(rounds, key, nonce), MacData(aad, ct))
AeadCrypt(rounds, key, nonce, data) == XorBytes(data, KeyStream("ietf", rounds, key, nonce, Ctr(1), 0, Len(data)))
\* <<ciphertext, tag>>
AeadEncrypt(rounds, key, nonce, aad, pt) == LET ct == AeadCrypt(rounds, key, nonce, pt) IN <<ct, AeadTag(rounds, key, nonce, aad, ct)>>
\* <<plaintext, accepted>>: the verdict is (tag = tag of exactly these inputs)
AeadDecrypt(rounds, key, nonce, aad, ct, tag) == <<AeadCrypt(rounds, key, nonce, ct), tag = AeadTag(rounds, key, nonce, aad, ct)>>
=============================================================================
