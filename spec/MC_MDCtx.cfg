CONSTANTS B = 4  LB = 2  MaxFed = 13  MaxOps = 6  NCtx = 2  Lens = {0, 1, 3, 4, 5, 8, 9}  Gen = FALSE
INIT Init
NEXT Next
INVARIANT InvBuffer
INVARIANT InvDigest
CHECK_DEADLOCK FALSE
