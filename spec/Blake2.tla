------------------------------- MODULE Blake2 ------------------------------
(* RFC 7693: BLAKE2b and BLAKE2s, any digest length nn and key length kk, sequential mode.
   IV = SHA-512 / SHA-256 initial values (2.6), SIGMA (2.7), G (3.1), F (3.2), and the
   top-level loop (3.3): h0 = IV ^ 0x0101kknn, the key (if any) padded to a first block,
   the counter t = bytes fed so far, the final block compressed with the last flag and
   t = total length; an empty unkeyed message is one all-zero block.
   The counter is a little-endian list of 16-bit limbs (8 limbs = 128 bits for b, 4 = 64
   bits for s) so that values beyond TLC's integers -- counters preset next to 2^32 and
   2^64 (property C20) -- are expressible; `start` is the counter value before the first
   byte is counted and is all-zero in the standard function. *)
EXTENDS SHA2
SIGMA == << <<0,1,2,3,4,5,6,7,8,9,10,11,12,13,14,15>>, <<14,10,4,8,9,15,13,6,1,12,0,2,11,7,5,3>>, <<11,8,12,0,5,2,15,13,10,14,3,6,7,1,9,4>>,
 <<7,9,3,1,13,12,11,14,2,6,5,10,4,0,15,8>>, <<9,0,5,7,2,4,10,15,14,1,11,12,6,8,3,13>>, <<2,12,6,10,0,11,8,3,4,13,7,5,15,14,1,9>>,
 <<12,5,1,15,14,13,4,10,0,7,6,3,9,2,8,11>>, <<13,11,7,14,12,1,3,9,5,0,15,4,8,6,2,10>>, <<6,15,14,9,11,3,0,8,12,2,13,7,1,4,10,5>>,
 <<10,2,8,4,7,6,1,5,15,11,9,14,3,12,13,0>> >>
\* counter arithmetic on 16-bit limb lists: add a small natural, wrapping at the list's width
CtrAdd(t, n) == LET step(acc, x) == LET v == x + acc[1] IN <<v \div 65536, Append(acc[2], v % 65536)>>
                    r == FoldLeft(step, <<n, <<>> >>, t)
                IN r[2]
Set4(v, a, b, c, d, va, vb, vc, vd) ==
  TLCEval([i \in 1..16 |-> IF i = a THEN va ELSE IF i = b THEN vb ELSE IF i = c THEN vc ELSE IF i = d THEN vd ELSE v[i]])

\* ---------------------------------------------------------------- BLAKE2b
GB(v, a, b, c, d, x, y) ==
  LET va1 == Add64(Add64(v[a], v[b]), x)
      vd1 == Rotr64(Xor64(v[d], va1), 32)
      vc1 == Add64(v[c], vd1)
      vb1 == Rotr64(Xor64(v[b], vc1), 24)
      va2 == Add64(Add64(va1, vb1), y)
      vd2 == Rotr64(Xor64(vd1, va2), 16)
      vc2 == Add64(vc1, vd2)
      vb2 == Rotr64(Xor64(vb1, vc2), 63)
  IN Set4(v, a, b, c, d, va2, vb2, vc2, vd2)
RoundB(v, m, r) ==
  LET s == SIGMA[(r % 10) + 1]
      v1 == GB(v, 1, 5, 9, 13, m[s[1]+1], m[s[2]+1])
      v2 == GB(v1, 2, 6, 10, 14, m[s[3]+1], m[s[4]+1])
      v3 == GB(v2, 3, 7, 11, 15, m[s[5]+1], m[s[6]+1])
      v4 == GB(v3, 4, 8, 12, 16, m[s[7]+1], m[s[8]+1])
      v5 == GB(v4, 1, 6, 11, 16, m[s[9]+1], m[s[10]+1])
      v6 == GB(v5, 2, 7, 12, 13, m[s[11]+1], m[s[12]+1])
      v7 == GB(v6, 3, 8, 9, 14, m[s[13]+1], m[s[14]+1])
  IN GB(v7, 4, 5, 10, 15, m[s[15]+1], m[s[16]+1])
\* F(h, block, t, last): t = 8 limbs
CompressB(h, blk, t, last) ==
  LET m == WordsLE64(blk)
      t0 == <<t[1], t[2], t[3], t[4]>>   t1 == <<t[5], t[6], t[7], t[8]>>
      v0 == TLCEval([i \in 1..16 |-> IF i <= 8 THEN h[i]
                                     ELSE IF i = 13 THEN Xor64(H512[5], t0)
                                     ELSE IF i = 14 THEN Xor64(H512[6], t1)
                                     ELSE IF i = 15 /\ last THEN Not64(H512[7]) ELSE H512[i - 8]])
      v == FoldLeft(LAMBDA acc, r: RoundB(acc, m, r), v0, Rng(0, 11))
  IN TLCEval([i \in 1..8 |-> Xor64(Xor64(h[i], v[i]), v[i + 8])])
InitB(outlen, kk) == [i \in 1..8 |-> IF i = 1 THEN Xor64(H512[1], <<(kk * 256 + outlen) % 65536, 257, 0, 0>>) ELSE H512[i]]
\* the (block, counter, last) list of 3.3 for data d (key block already prepended)
B2Schedule(d, bs, start) ==
  LET n == Len(d)
      nb == IF n = 0 THEN 1 ELSE (n + bs - 1) \div bs
      dp == d \o Zeros(nb * bs - n)
  IN [k \in 1..nb |-> [blk |-> SubSeq(dp, bs * (k - 1) + 1, bs * k),
                       t |-> CtrAdd(start, IF k = nb THEN n ELSE bs * k), last |-> k = nb]]
Blake2bFrom(msg, key, outlen, start) ==
  LET kk == Len(key)
      d == (IF kk > 0 THEN key \o Zeros(128 - kk) ELSE <<>>) \o msg
      h == FoldLeft(LAMBDA acc, c: CompressB(acc, c.blk, c.t, c.last), InitB(outlen, kk), B2Schedule(d, 128, start))
  IN SubSeq(BytesOfLE64(h), 1, outlen)
Blake2b(msg, key, outlen) == Blake2bFrom(msg, key, outlen, Zeros(8))

\* ---------------------------------------------------------------- BLAKE2s
GS(v, a, b, c, d, x, y) ==
  LET va1 == Add32(Add32(v[a], v[b]), x)
      vd1 == Rotr32(Xor32(v[d], va1), 16)
      vc1 == Add32(v[c], vd1)
      vb1 == Rotr32(Xor32(v[b], vc1), 12)
      va2 == Add32(Add32(va1, vb1), y)
      vd2 == Rotr32(Xor32(vd1, va2), 8)
      vc2 == Add32(vc1, vd2)
      vb2 == Rotr32(Xor32(vb1, vc2), 7)
  IN Set4(v, a, b, c, d, va2, vb2, vc2, vd2)
RoundS(v, m, r) ==
  LET s == SIGMA[(r % 10) + 1]
      v1 == GS(v, 1, 5, 9, 13, m[s[1]+1], m[s[2]+1])
      v2 == GS(v1, 2, 6, 10, 14, m[s[3]+1], m[s[4]+1])
      v3 == GS(v2, 3, 7, 11, 15, m[s[5]+1], m[s[6]+1])
      v4 == GS(v3, 4, 8, 12, 16, m[s[7]+1], m[s[8]+1])
      v5 == GS(v4, 1, 6, 11, 16, m[s[9]+1], m[s[10]+1])
      v6 == GS(v5, 2, 7, 12, 13, m[s[11]+1], m[s[12]+1])
      v7 == GS(v6, 3, 8, 9, 14, m[s[13]+1], m[s[14]+1])
  IN GS(v7, 4, 5, 10, 15, m[s[15]+1], m[s[16]+1])
\* t = 4 limbs; 32-bit words are <<hi, lo>>
CompressS(h, blk, t, last) ==
  LET m == WordsLE32(blk)
      t0 == <<t[2], t[1]>>   t1 == <<t[4], t[3]>>
      v0 == TLCEval([i \in 1..16 |-> IF i <= 8 THEN h[i]
                                     ELSE IF i = 13 THEN Xor32(H256[5], t0)
                                     ELSE IF i = 14 THEN Xor32(H256[6], t1)
                                     ELSE IF i = 15 /\ last THEN Not32(H256[7]) ELSE H256[i - 8]])
      v == FoldLeft(LAMBDA acc, r: RoundS(acc, m, r), v0, Rng(0, 9))
  IN TLCEval([i \in 1..8 |-> Xor32(Xor32(h[i], v[i]), v[i + 8])])
InitS(outlen, kk) == [i \in 1..8 |-> IF i = 1 THEN Xor32(H256[1], <<257, kk * 256 + outlen>>) ELSE H256[i]]
Blake2sFrom(msg, key, outlen, start) ==
  LET kk == Len(key)
      d == (IF kk > 0 THEN key \o Zeros(64 - kk) ELSE <<>>) \o msg
      h == FoldLeft(LAMBDA acc, c: CompressS(acc, c.blk, c.t, c.last), InitS(outlen, kk), B2Schedule(d, 64, start))
  IN SubSeq(BytesOfLE32(h), 1, outlen)
Blake2s(msg, key, outlen) == Blake2sFrom(msg, key, outlen, Zeros(4))
=============================================================================
