------------------------------- MODULE MDCtx -------------------------------
(* Object machine of the Merkle-Damgard hashing contexts: sha2::Context*, sha1::Context,
   ripemd160::Context, i.e. cryptoutil::FixedBuffer + Engine256/Engine512 (+ the same
   structure in sha1.rs / ripemd160.rs), transcribed action by action from the Rust control
   flow.  Data is a free algebra: message bytes are the naturals 1, 2, 3, ... in feeding
   order (every byte distinguishable), the chaining value is the list of blocks compressed
   so far.  Two different block lists never collide, so "the blocks compressed at finalize
   are exactly Chop(PadStd(fed))" is stronger than any concrete digest equality.
   B = block size, LB = size of the length field.  The same text is model-checked
   exhaustively at B = 4 (MC_MDCtx*.cfg) and, with Gen = TRUE, instantiated at the real
   sizes (64, 8) and (128, 16) to print operation histories that are replayed on the real
   contexts (GEN_MDCtx*.cfg). *)
EXTENDS Integers, Sequences, SequencesExt, FiniteSets, TLC, Json
CONSTANTS B, LB, MaxFed, MaxOps, NCtx, Lens, Gen
VARIABLES ctx, nops, nextByte, lastOut, hist
vars == <<ctx, nops, nextByte, lastOut, hist>>
Ctxs == 1..NCtx
Fresh == [live |-> TRUE, fed |-> <<>>, h |-> <<>>, buf |-> <<>>, n |-> 0]
Dead == [live |-> FALSE, fed |-> <<>>, h |-> <<>>, buf |-> <<>>, n |-> 0]
PADMARK == -1
ZeroN(n) == [i \in 1..n |-> 0]

\* ---- the standard's definition (FIPS 180-4 5.1/5.2): M || 0x80 || 0* || len, cut in blocks
LenField(n) == [i \in 1..LB |-> -100 - n]          \* abstract encoding of the length n
PadStd(m) == LET z == (2*B - 1 - LB - (Len(m) % B)) % B IN m \o <<PADMARK>> \o ZeroN(z) \o LenField(Len(m))
Chop(s) == [k \in 1..(Len(s) \div B) |-> SubSeq(s, B * (k - 1) + 1, B * k)]
HashStd(m) == Chop(PadStd(m))

\* ---- FixedBuffer::input (cryptoutil.rs), line by line.  `br` records the branch taken:
\* "fill" partial buffer topped up without completing it; "cmp" buffer completed and compressed;
\* "blk" whole blocks compressed straight from the caller's slice; "tail" a tail was stashed
Input(c, chunk) ==
  LET idx == Len(c.buf) IN
  IF idx # 0 /\ Len(chunk) < B - idx
  THEN [c EXCEPT !.buf = c.buf \o chunk, !.fed = c.fed \o chunk, !.n = c.n + Len(chunk)]
  ELSE LET i0 == IF idx # 0 THEN B - idx ELSE 0
           h1 == IF idx # 0 THEN Append(c.h, c.buf \o SubSeq(chunk, 1, i0)) ELSE c.h
           rem == Len(chunk) - i0
           nb == IF rem >= B THEN rem \div B ELSE 0
           h2 == h1 \o [k \in 1..nb |-> SubSeq(chunk, i0 + (k-1)*B + 1, i0 + k*B)]
       IN [c EXCEPT !.h = h2, !.buf = SubSeq(chunk, i0 + nb*B + 1, Len(chunk)),
                    !.fed = c.fed \o chunk, !.n = c.n + Len(chunk)]
InputBranch(c, len) ==
  LET idx == Len(c.buf) IN
  IF idx # 0 /\ len < B - idx THEN "fill"
  ELSE LET i0 == IF idx # 0 THEN B - idx ELSE 0   rem == len - i0 IN
       (IF idx # 0 THEN "cmp" ELSE "") \o (IF rem >= B THEN "blk" ELSE "") \o (IF rem % B # 0 THEN "tail" ELSE "")
\* ---- Engine::finish = standard_padding(LB) + length field + last block, transcribed
Finish(c) ==
  LET b1 == Append(c.buf, PADMARK)
      spill == (B - Len(b1)) < LB
      h1 == IF spill THEN Append(c.h, b1 \o ZeroN(B - Len(b1))) ELSE c.h
      b2 == IF spill THEN <<>> ELSE b1
      b3 == b2 \o ZeroN(B - LB - Len(b2)) \o LenField(c.n)
  IN Append(h1, b3)
Spills(c) == (B - Len(c.buf) - 1) < LB

Chunk(len) == [i \in 1..len |-> nextByte + i - 1]
Log(rec) == IF Gen THEN Append(hist, rec) ELSE hist
Init == /\ ctx = [x \in Ctxs |-> IF x = 1 THEN Fresh ELSE Dead]
        /\ nops = 0 /\ nextByte = 1 /\ lastOut = <<>> /\ hist = <<>>
Tick == nops < MaxOps /\ nops' = nops + 1
Feed(x, len, op) ==
  /\ Tick /\ ctx[x].live /\ Len(ctx[x].fed) + len <= MaxFed
  /\ ctx' = [ctx EXCEPT ![x] = Input(ctx[x], Chunk(len))]
  /\ nextByte' = nextByte + len /\ lastOut' = <<>>
  /\ hist' = Log([op |-> op, x |-> x, len |-> len, br |-> InputBranch(ctx[x], len)])
Update(x, len) == Feed(x, len, "update")             \* consuming update(self, ..) -> Self
UpdateMut(x, len) == Feed(x, len, "update_mut")      \* in-place update_mut(&mut self, ..)
Finalize(x) ==
  /\ Tick /\ ctx[x].live
  /\ lastOut' = <<Finish(ctx[x]), HashStd(ctx[x].fed)>>
  /\ ctx' = [ctx EXCEPT ![x] = Dead] /\ UNCHANGED nextByte
  /\ hist' = Log([op |-> "finalize", x |-> x, br |-> IF Spills(ctx[x]) THEN "spill" ELSE "fit"])
FinalizeReset(x) ==
  /\ Tick /\ ctx[x].live
  /\ lastOut' = <<Finish(ctx[x]), HashStd(ctx[x].fed)>>
  /\ ctx' = [ctx EXCEPT ![x] = Fresh] /\ UNCHANGED nextByte
  /\ hist' = Log([op |-> "finalize_reset", x |-> x, br |-> IF Spills(ctx[x]) THEN "spill" ELSE "fit"])
Reset(x) ==
  /\ Tick /\ ctx[x].live /\ ctx' = [ctx EXCEPT ![x] = Fresh] /\ UNCHANGED nextByte /\ lastOut' = <<>>
  /\ hist' = Log([op |-> "reset", x |-> x])
Clone(x, y) ==
  /\ Tick /\ ctx[x].live /\ ~ctx[y].live /\ ctx' = [ctx EXCEPT ![y] = ctx[x]] /\ UNCHANGED nextByte /\ lastOut' = <<>>
  /\ hist' = Log([op |-> "clone", x |-> x, y |-> y])
Next == \E x \in Ctxs : \/ \E len \in Lens : Update(x, len)
                        \/ \E len \in Lens : UpdateMut(x, len)
                        \/ Finalize(x) \/ FinalizeReset(x) \/ Reset(x)
                        \/ \E y \in Ctxs \ {x} : Clone(x, y)
Spec == Init /\ [][Next]_vars

\* ---- properties
Flat(h) == FoldLeft(LAMBDA a, b : a \o b, <<>>, h)
\* the buffered and the compressed bytes together are exactly what was fed; the buffer is never full
InvBuffer == \A x \in Ctxs : ctx[x].live => /\ Len(ctx[x].buf) < B
                                          /\ Flat(ctx[x].h) \o ctx[x].buf = ctx[x].fed
                                          /\ ctx[x].n = Len(ctx[x].fed)
\* whatever the history (splits, clones, resets, reuse), finalize compresses the standard's blocks for `fed`
InvDigest == lastOut # <<>> => lastOut[1] = lastOut[2]
\* generation: one line per complete behaviour that observed at least one digest
\* ---- guided generation ("reuse matrix"): every history  update{0,2} R update{0,2} finalize  on context 1, R any call that re-initialises
\* the context (reset, finalize_reset, and their keyed forms): what the context held when it was re-initialised x what it is fed afterwards.
\* Used as a CONSTRAINT together with EmitReuse (see MacObj.tla for the motivation).
IsUpd(o) == o \in {"update_mut", "new"}                 \* ("new" = the construction record some machines log first)
IsRe(o) == o \in {"reset", "finalize_reset", "reset_with_key", "finalize_reset_with_key"}
ReAt == IF \E i \in 1..Len(hist) : IsRe(hist[i].op) THEN CHOOSE i \in 1..Len(hist) : IsRe(hist[i].op) /\ \A j \in 1..(i - 1) : ~IsRe(hist[j].op) ELSE 0
UpdOnly(p) == Len(p) <= 2 /\ \A i \in 1..Len(p) : IsUpd(p[i].op) /\ p[i].x = 1
ReuseShape == LET k == ReAt IN
              IF k = 0 THEN UpdOnly(hist)
              ELSE /\ UpdOnly(SubSeq(hist, 1, k - 1)) /\ hist[k].x = 1
                   /\ LET a == SubSeq(hist, k + 1, Len(hist)) IN
                      IF Len(a) > 0 /\ a[Len(a)].op = "finalize" THEN a[Len(a)].x = 1 /\ UpdOnly(SubSeq(a, 1, Len(a) - 1)) ELSE UpdOnly(a)
EmitReuse == (Gen /\ ReAt > 0 /\ hist[Len(hist)].op = "finalize") => PrintT(ToJson(<<"GEN", hist>>))
Emit == (Gen /\ nops = MaxOps /\ \E i \in 1..Len(hist) : hist[i].op \in {"finalize", "finalize_reset"})
           => PrintT(ToJson(<<"GEN", hist>>))
\* MC view: the generation history is not part of the state
View == <<ctx, nops, nextByte, lastOut>>
=============================================================================
