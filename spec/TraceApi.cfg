INIT TInit
NEXT TStep
CHECK_DEADLOCK FALSE
