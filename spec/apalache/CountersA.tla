----------------------------- MODULE CountersA -----------------------------
(* Counters.tla at the real word widths, for Apalache (symbolic): the same step rules as spec/Counters.tla with
   W = 32 (BLAKE2s, cipher block counters) and W = 64 (BLAKE2b) over *arbitrary* counter values and increments
   1..Block.  One symbolic step from an arbitrary state is an inductive-step proof for all counter values:
       apalache-mc check --cinit=CInit32 --init=Init --next=Step --inv=Inv --length=1 CountersA.tla
       apalache-mc check --cinit=CInit64 --init=Init --next=Step --inv=Inv --length=1 CountersA.tla
   (TLC cannot hold 2^64 in its integers; Counters.tla is the TLC version at width 3.)  Add = "plus" with
   Profile = "checked" reproduces defect D10 (Apalache reports a counterexample with t0 + inc >= 2^W). *)
EXTENDS Integers
CONSTANTS
  \* @type: Int;
  M,
  \* @type: Int;
  MaxInc,
  \* @type: Str;
  Add,
  \* @type: Str;
  Profile
VARIABLES
  \* @type: Int;
  lo,
  \* @type: Int;
  hi,
  \* @type: Int;
  inc,
  \* @type: Str;
  kind,
  \* @type: Int;
  olo,
  \* @type: Int;
  ohi,
  \* @type: Bool;
  panicked,
  \* @type: Bool;
  stepped

CInit32 == M = 4294967296 /\ MaxInc = 64 /\ Add = "wrapping" /\ Profile = "checked"
CInit64 == M = 18446744073709551616 /\ MaxInc = 128 /\ Add = "wrapping" /\ Profile = "checked"
CInit64Pinned == M = 18446744073709551616 /\ MaxInc = 128 /\ Add = "plus" /\ Profile = "checked"

Init == /\ lo \in Int /\ lo >= 0 /\ lo < M
        /\ hi \in Int /\ hi >= 0 /\ hi < M
        /\ inc \in Int /\ inc >= 1 /\ inc <= MaxInc
        /\ kind \in {"blake2", "inc64", "inc32"}
        /\ olo = 0 /\ ohi = 0 /\ panicked = FALSE /\ stepped = FALSE
Overflow(a, b) == Add = "plus" /\ Profile = "checked" /\ a + b >= M
Step ==
  /\ ~stepped /\ stepped' = TRUE
  /\ UNCHANGED <<lo, hi, inc, kind>>
  /\ \/ /\ kind = "blake2"
        /\ LET a == (lo + inc) % M
               c == IF a < inc THEN 1 ELSE 0
           IN /\ panicked' = (Overflow(lo, inc) \/ Overflow(hi, c))
              /\ olo' = a /\ ohi' = (hi + c) % M
     \/ /\ kind = "inc64"
        /\ LET a == (lo + 1) % M IN olo' = a /\ ohi' = (IF a = 0 THEN (hi + 1) % M ELSE hi)
        /\ panicked' = FALSE
     \/ /\ kind = "inc32" /\ olo' = (lo + 1) % M /\ ohi' = hi /\ panicked' = FALSE
InRange == kind = "blake2" => hi * M + lo + inc < M * M
Inv == (stepped /\ InRange) =>
          /\ ~panicked
          /\ (kind = "blake2" => ohi * M + olo = hi * M + lo + inc)
          /\ (kind = "inc64" => ohi * M + olo = (hi * M + lo + 1) % (M * M))
          /\ (kind = "inc32" => (olo = (lo + 1) % M /\ ohi = hi))
=============================================================================
