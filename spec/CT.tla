--------------------------------- MODULE CT ---------------------------------
(* Constant-time predicates and selectors of constant_time.rs (property C18) at design level.
   Two things are defined for every helper: its *plain meaning* (what the property says it must
   return) and the *branch-free formula* transcribed from the Rust source at a parametric word
   width W (the code uses W = 64; unsigned words are the naturals below 2^W, wrapping_neg is
   2^W - x, wrapping_sub adds 2^W before reducing).  TLC checks meaning = formula for every
   operand pair at W = 8 (65 536 initial states), for the byte-array borrow chain on every pair
   of 2-byte arrays over a boundary alphabet, and for the masked swap/assign on both choices.
   The *derived* operations exist in two variants:
     Derived = "negate" : ct_le(a,b) = not ct_gt(a,b), ct_ge(a,b) = not ct_lt(a,b)   (the repaired tree)
     Derived = "swap"   : ct_le(a,b) = ct_gt(b,a),     ct_ge(a,b) = ct_lt(b,a)       (the pinned tree, D9)
   With "swap" TLC reports a = b = 0 at once (./check selftest requires that it does). *)
EXTENDS Integers, Sequences, Bitwise, TLC
CONSTANTS W, Derived, Bytes     \* Bytes: alphabet for the byte-array chain
VARIABLES a, b, x, y, c
vars == <<a, b, x, y, c>>
M == 2 ^ W
Neg(v) == (M - v) % M                    \* wrapping_neg
Sub(u, v) == (u + M - v) % M             \* wrapping_sub
Top(v) == shiftR(v, W - 1)               \* >> (W-1)

\* ---- formulas as in the source
FZero(v)    == 1 ^^ Top(v | Neg(v))                              \* CtZero for u64
FNonZero(v) == Top(v | Neg(v))
FEq(u, v)   == FZero(u ^^ v)
FNe(u, v)   == FNonZero(u ^^ v)
FLt(u, v)   == Top(u ^^ ((u ^^ v) | (Sub(u, v) ^^ v)))           \* CtLesser for u64
FGt(u, v)   == FLt(v, u)
FNegate(ch) == 1 ^^ ch
FLe(u, v)   == IF Derived = "swap" THEN FGt(v, u) ELSE FNegate(FGt(u, v))
FGe(u, v)   == IF Derived = "swap" THEN FLt(v, u) ELSE FNegate(FLt(u, v))
\* CtLesser for &[u8; N]: borrow chain from the last (least significant) byte; i16 arithmetic, x2 = sign byte
Borrow(xb, yb, bw) == IF (xb - bw) - yb < 0 THEN 1 ELSE 0         \* (0 - (x1 >> 8) as i8) as u8 is 1 iff x1 < 0
FArrLt(u, v) == LET b2 == Borrow(u[2], v[2], 0)
                    b1 == Borrow(u[1], v[1], b2)
                IN FNonZero(b1)
FArrGe(u, v) == IF Derived = "swap" THEN FArrLt(v, u) ELSE FNegate(FArrLt(u, v))
\* masked swap / assign on one limb
Mask(ch) == Neg(ch)
FSwap(u, v, ch) == LET t == (u ^^ v) & Mask(ch) IN <<u ^^ t, v ^^ t>>
FSet(u, v, ch)  == LET t == (u ^^ v) & Mask(ch) IN u ^^ t

\* ---- meanings
Bit(p) == IF p THEN 1 ELSE 0
Val2(u) == u[1] * 256 + u[2]              \* 2-byte array read as a big-endian number

Init == /\ a \in 0..(M - 1) /\ b \in 0..(M - 1)
        /\ x = <<0, 0>> /\ y = <<0, 0>> /\ c = 0
\* second family of initial states: byte arrays and choices (a, b fixed)
InitArr == /\ a \in {0, M - 1} /\ b \in {1, M - 2}
           /\ x \in [1..2 -> Bytes] /\ y \in [1..2 -> Bytes] /\ c \in {0, 1}
Next == UNCHANGED vars

InvWord ==
  /\ FZero(a) = Bit(a = 0) /\ FNonZero(a) = Bit(a # 0)
  /\ FEq(a, b) = Bit(a = b) /\ FNe(a, b) = Bit(a # b)
  /\ FLt(a, b) = Bit(a < b) /\ FGt(a, b) = Bit(a > b)
InvDerived ==
  /\ FLe(a, b) = Bit(a <= b) /\ FGe(a, b) = Bit(a >= b)
InvArr ==
  /\ FArrLt(x, y) = Bit(Val2(x) < Val2(y))
  /\ FArrGe(x, y) = Bit(Val2(x) >= Val2(y))
InvSelect ==
  /\ FSwap(a, b, c) = IF c = 1 THEN <<b, a>> ELSE <<a, b>>
  /\ FSet(a, b, c) = IF c = 1 THEN b ELSE a
InvChoice ==
  /\ FNegate(c) = Bit(c = 0) /\ (c & FNegate(c)) = 0 /\ (c | FNegate(c)) = 1 /\ (c ^^ c) = 0
=============================================================================
