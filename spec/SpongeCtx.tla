------------------------------ MODULE SpongeCtx ----------------------------
(* Object machine of sha3::Engine<DIGESTLEN, DSLEN> and the SHA-3 / Keccak contexts built on
   it (src/hashing/sha3.rs, keccak.rs): absorb at `offset`, permute when a rate block is
   complete, finalize = pad_len + set_domain_sep + set_pad + process(pad), squeeze, reset, with
   the can_absorb / can_squeeze phase flags.  The padding arithmetic and bit fiddling are
   transcribed literally (bits!), message bytes are the symbols 1000, 1001, ...; the sponge
   state is the free term "list of rate blocks absorbed (and permuted) so far".
   Rate = rate in bytes, DSLEN = number of domain-separation bits (2 for SHA-3, 0 for Keccak),
   DLen = digest bytes (<= Rate for every instance in the crate). *)
EXTENDS Integers, Sequences, SequencesExt, Bitwise, TLC, Json
CONSTANTS Rate, DSLEN, DLen, MaxFed, MaxOps, NCtx, Lens, Gen
VARIABLES ctx, nops, nextByte, lastOut, hist
vars == <<ctx, nops, nextByte, lastOut, hist>>
Ctxs == 1..NCtx
ZeroN(n) == [i \in 1..n |-> 0]
Fresh == [live |-> TRUE, fed |-> <<>>, blocks |-> <<>>, cur |-> <<>>, canAbsorb |-> TRUE, canSqueeze |-> TRUE]
Dead == [live |-> FALSE, fed |-> <<>>, blocks |-> <<>>, cur |-> <<>>, canAbsorb |-> FALSE, canSqueeze |-> FALSE]
\* offset == Len(cur): the bytes XORed into the current block so far

\* ---- FIPS 202: M || suffix || pad10*1, in bytes: first pad byte 0x06 (SHA-3) / 0x01 (Keccak), last |= 0x80
DS == IF DSLEN = 2 THEN 6 ELSE 1
PadStd(m) == LET q == Rate - (Len(m) % Rate)
             IN IF q = 1 THEN m \o <<DS + 128>> ELSE m \o <<DS>> \o ZeroN(q - 2) \o <<128>>
Chop(s) == [k \in 1..(Len(s) \div Rate) |-> SubSeq(s, Rate * (k - 1) + 1, Rate * k)]
SpongeStd(m) == <<Chop(PadStd(m)), DLen>>

\* ---- Engine::process: XOR at offset, permute when offset + nread == r
RECURSIVE Process(_, _)
Process(c, data) ==
  IF Len(data) = 0 THEN c
  ELSE LET off == Len(c.cur)
           nread == IF Rate - off < Len(data) THEN Rate - off ELSE Len(data)
           cur1 == c.cur \o SubSeq(data, 1, nread)
       IN IF off + nread # Rate THEN [c EXCEPT !.cur = cur1]
          ELSE Process([c EXCEPT !.cur = <<>>, !.blocks = Append(c.blocks, cur1)], SubSeq(data, nread + 1, Len(data)))
\* ---- Engine::finalize, with its helpers transcribed (all quantities in bits as in the code)
PadLen(offsetBits, rateBits) ==
  LET m == offsetBits + DSLEN
      zeros == ((0 - m - 2) + 2 * rateBits) % rateBits
  IN (DSLEN + zeros + 2) \div 8
SetDomainSep(p) == [p EXCEPT ![1] = ((p[1] & 254) | 2)]              \* out_len != 0: bits "01"
SetPad(p) ==
  LET s == (DSLEN \div 8) + 1                                          \* 1-based index of buf[offset / 8]
      b0 == p[s] | (2 ^ (DSLEN % 8))
      b1 == b0 % (2 ^ ((DSLEN % 8) + 1))                               \* clear the bits above the pad bit
      p1 == [i \in 1..Len(p) |-> IF i < s THEN p[i] ELSE IF i = s THEN b1 ELSE 0]
  IN [p1 EXCEPT ![Len(p)] = p1[Len(p)] | 128]
FinalizeEng(c) ==
  LET plen == PadLen(Len(c.cur) * 8, Rate * 8)
      p0 == ZeroN(plen)
      p1 == IF DSLEN # 0 THEN SetDomainSep(p0) ELSE p0
      c1 == Process(c, SetPad(p1))
  IN [c1 EXCEPT !.canAbsorb = FALSE]
\* ---- Engine::output for out.len() = DLen <= Rate on a freshly finalized state
Output(c) == LET c1 == IF c.canAbsorb THEN FinalizeEng(c) ELSE c IN <<c1.blocks, DLen>>

Chunk(len) == [i \in 1..len |-> 999 + nextByte + i - 1]
Log(rec) == IF Gen THEN Append(hist, rec) ELSE hist
Tick == nops < MaxOps /\ nops' = nops + 1
Init == ctx = [x \in Ctxs |-> IF x = 1 THEN Fresh ELSE Dead] /\ nops = 0 /\ nextByte = 1 /\ lastOut = <<>> /\ hist = <<>>
FeedBr(c, len) == IF len = 0 THEN "empty" ELSE IF Len(c.cur) + len < Rate THEN "partial"
                  ELSE IF (Len(c.cur) + len) % Rate = 0 THEN "exact" ELSE "cross"
Feed(x, len, op) ==
  /\ Tick /\ ctx[x].live /\ Len(ctx[x].fed) + len <= MaxFed
  /\ ctx' = [ctx EXCEPT ![x] = [Process(ctx[x], Chunk(len)) EXCEPT !.fed = ctx[x].fed \o Chunk(len)]]
  /\ nextByte' = nextByte + len /\ lastOut' = <<>>
  /\ hist' = Log([op |-> op, x |-> x, len |-> len, br |-> FeedBr(ctx[x], len)])
Update(x, len) == Feed(x, len, "update")
UpdateMut(x, len) == Feed(x, len, "update_mut")
FinBr(c) == IF Len(c.cur) = Rate - 1 THEN "pad1" ELSE IF Len(c.cur) = 0 THEN "padfull" ELSE "pad"
Finalize(x) == /\ Tick /\ ctx[x].live /\ lastOut' = <<Output(ctx[x]), SpongeStd(ctx[x].fed)>>
               /\ ctx' = [ctx EXCEPT ![x] = Dead] /\ UNCHANGED nextByte
               /\ hist' = Log([op |-> "finalize", x |-> x, br |-> FinBr(ctx[x])])
FinalizeReset(x) == /\ Tick /\ ctx[x].live /\ lastOut' = <<Output(ctx[x]), SpongeStd(ctx[x].fed)>>
                    /\ ctx' = [ctx EXCEPT ![x] = Fresh] /\ UNCHANGED nextByte
                    /\ hist' = Log([op |-> "finalize_reset", x |-> x, br |-> FinBr(ctx[x])])
Reset(x) == /\ Tick /\ ctx[x].live /\ ctx' = [ctx EXCEPT ![x] = Fresh] /\ lastOut' = <<>> /\ UNCHANGED nextByte
            /\ hist' = Log([op |-> "reset", x |-> x])
Clone(x, y) == /\ Tick /\ ctx[x].live /\ ~ctx[y].live /\ ctx' = [ctx EXCEPT ![y] = ctx[x]] /\ lastOut' = <<>> /\ UNCHANGED nextByte
               /\ hist' = Log([op |-> "clone", x |-> x, y |-> y])
Next == \E x \in Ctxs : \/ \E len \in Lens : Update(x, len)
                        \/ \E len \in Lens : UpdateMut(x, len)
                        \/ Finalize(x) \/ FinalizeReset(x) \/ Reset(x)
                        \/ \E y \in Ctxs \ {x} : Clone(x, y)
Spec == Init /\ [][Next]_vars
Flat(h) == FoldLeft(LAMBDA a, b : a \o b, <<>>, h)
\* what was absorbed so far is what was fed; a live context is always in its absorbing phase
InvAbsorb == \A x \in Ctxs : ctx[x].live => /\ Len(ctx[x].cur) < Rate /\ Flat(ctx[x].blocks) \o ctx[x].cur = ctx[x].fed
                                          /\ ctx[x].canAbsorb /\ ctx[x].canSqueeze
\* the blocks absorbed at finalize are the standard's padded message, cut at the rate
InvDigest == lastOut # <<>> => lastOut[1] = lastOut[2]
\* ---- guided generation ("reuse matrix"): every history  update{0,2} R update{0,2} finalize  on context 1, R any call that re-initialises
\* the context (reset, finalize_reset, and their keyed forms): what the context held when it was re-initialised x what it is fed afterwards.
\* Used as a CONSTRAINT together with EmitReuse (see MacObj.tla for the motivation).
IsUpd(o) == o \in {"update_mut", "new"}                 \* ("new" = the construction record some machines log first)
IsRe(o) == o \in {"reset", "finalize_reset", "reset_with_key", "finalize_reset_with_key"}
ReAt == IF \E i \in 1..Len(hist) : IsRe(hist[i].op) THEN CHOOSE i \in 1..Len(hist) : IsRe(hist[i].op) /\ \A j \in 1..(i - 1) : ~IsRe(hist[j].op) ELSE 0
UpdOnly(p) == Len(p) <= 2 /\ \A i \in 1..Len(p) : IsUpd(p[i].op) /\ p[i].x = 1
ReuseShape == LET k == ReAt IN
              IF k = 0 THEN UpdOnly(hist)
              ELSE /\ UpdOnly(SubSeq(hist, 1, k - 1)) /\ hist[k].x = 1
                   /\ LET a == SubSeq(hist, k + 1, Len(hist)) IN
                      IF Len(a) > 0 /\ a[Len(a)].op = "finalize" THEN a[Len(a)].x = 1 /\ UpdOnly(SubSeq(a, 1, Len(a) - 1)) ELSE UpdOnly(a)
EmitReuse == (Gen /\ ReAt > 0 /\ hist[Len(hist)].op = "finalize") => PrintT(ToJson(<<"GEN", hist>>))
Emit == (Gen /\ nops = MaxOps /\ \E i \in 1..Len(hist) : hist[i].op \in {"finalize", "finalize_reset"})
           => PrintT(ToJson(<<"GEN", hist>>))
=============================================================================
