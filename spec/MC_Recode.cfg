CONSTANTS N = 3
INIT Init
NEXT Next
INVARIANT InvRadix16
INVARIANT InvSlide
CHECK_DEADLOCK FALSE
