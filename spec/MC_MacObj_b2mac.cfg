CONSTANTS Kind = "b2mac"  B = 4  MaxOps = 6  NCtx = 2  Lens = {0, 1, 3, 4, 5, 8}  PolyFinish = "always"  ResetKeeps = "keep"  Gen = FALSE
INIT Init
NEXT Next
INVARIANT InvResult
INVARIANT InvInput
CHECK_DEADLOCK FALSE
