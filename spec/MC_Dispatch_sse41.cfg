CONSTANTS B = 2  Level = "sse41"  MaxOps = 3  MaxFed = 100
  Lens = {0,1,2,3,4,5,6,7,8,9,10,11,12,13,14,15,16,17,18,19,20,21,22,23,24,25,26,27,28,29,30,31,32,33,34,35,36,37,38,39,40,41}
INIT Init
NEXT Next
INVARIANT InvSequential
INVARIANT InvLevel
CHECK_DEADLOCK FALSE
