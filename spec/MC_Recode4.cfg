CONSTANTS N = 4
INIT Init
NEXT Next
INVARIANT InvRadix16
INVARIANT InvSlide
CHECK_DEADLOCK FALSE
