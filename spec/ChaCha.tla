------------------------------- MODULE ChaCha ------------------------------
(* ChaCha (Bernstein 2008), the IETF variant (RFC 8439 2.1-2.4), HChaCha and XChaCha
   (draft-irtf-cfrg-xchacha 2.2-2.3), for 8, 12 or 20 rounds and 16- or 32-byte keys.
   State = 16 words: constants | key (a 16-byte key is used twice, with the constants
   "expand 16-byte k") | words 12..15.  The variants differ only in words 12..15:
     ietf      counter32, nonce[0..12]          counter wraps modulo 2^32
     original  counter64 (lo, hi), nonce[0..8]  counter carries into word 13
     xchacha   ChaCha with the HChaCha subkey, words = counter32, 0, nonce[16..24]
   A block counter is a little-endian list of four 16-bit limbs (TLC integers are 32-bit). *)
EXTENDS Words
SIGMA32 == <<LE32(<<101,120,112,97>>, 0), LE32(<<110,100,32,51>>, 0), LE32(<<50,45,98,121>>, 0), LE32(<<116,101,32,107>>, 0)>>   \* "expand 32-byte k"
TAU16   == <<LE32(<<101,120,112,97>>, 0), LE32(<<110,100,32,49>>, 0), LE32(<<54,45,98,121>>, 0), LE32(<<116,101,32,107>>, 0)>>   \* "expand 16-byte k"
QR(s, a, b, c, d) ==
  LET a1 == Add32(s[a], s[b])   d1 == Rotl32(Xor32(s[d], a1), 16)
      c1 == Add32(s[c], d1)     b1 == Rotl32(Xor32(s[b], c1), 12)
      a2 == Add32(a1, b1)       d2 == Rotl32(Xor32(d1, a2), 8)
      c2 == Add32(c1, d2)       b2 == Rotl32(Xor32(b1, c2), 7)
  IN TLCEval([i \in 1..16 |-> IF i = a THEN a2 ELSE IF i = b THEN b2 ELSE IF i = c THEN c2 ELSE IF i = d THEN d2 ELSE s[i]])
DoubleRound(s) ==
  LET s1 == QR(s, 1, 5, 9, 13)   s2 == QR(s1, 2, 6, 10, 14)  s3 == QR(s2, 3, 7, 11, 15)  s4 == QR(s3, 4, 8, 12, 16)
      s5 == QR(s4, 1, 6, 11, 16) s6 == QR(s5, 2, 7, 12, 13)  s7 == QR(s6, 3, 8, 9, 14)
  IN QR(s7, 4, 5, 10, 15)
Rounds(s, rounds) == FoldLeft(LAMBDA acc, i: DoubleRound(acc), s, Rng(1, rounds \div 2))
KeyWords(key) == IF Len(key) = 32 THEN WordsLE32(key) ELSE WordsLE32(key) \o WordsLE32(key)
Consts(key) == IF Len(key) = 32 THEN SIGMA32 ELSE TAU16
InitState(key, w12to15) == Consts(key) \o KeyWords(key) \o w12to15
Block(st, rounds) == LET w == Rounds(st, rounds) IN BytesOfLE32([i \in 1..16 |-> Add32(w[i], st[i])])
\* HChaCha: no feed-forward, words 0..3 and 12..15
HChaCha(key, nonce16, rounds) ==
  LET w == Rounds(InitState(key, WordsLE32(nonce16)), rounds) IN BytesOfLE32(SubSeq(w, 1, 4) \o SubSeq(w, 13, 16))
\* counters: limbs <<l0,l1,l2,l3>>; a 32-bit word from two limbs
Lo32(c) == <<c[2], c[1]>>
Hi32(c) == <<c[4], c[3]>>
CtrAdd64(c, n) == LET s1 == c[1] + n  s2 == c[2] + (s1 \div 65536)  s3 == c[3] + (s2 \div 65536)  s4 == c[4] + (s3 \div 65536)
                  IN <<s1 % 65536, s2 % 65536, s3 % 65536, s4 % 65536>>
CtrAdd32(c, n) == LET s1 == c[1] + n  s2 == c[2] + (s1 \div 65536) IN <<s1 % 65536, s2 % 65536, c[3], c[4]>>   \* wraps modulo 2^32
\* words 12..15 of block number ctr for each variant (nonce: 12 / 8 / 24 bytes)
W12(variant, ctr, nonce) ==
  CASE variant = "ietf" -> <<Lo32(ctr)>> \o WordsLE32(nonce)
    [] variant = "original" -> <<Lo32(ctr), Hi32(ctr)>> \o WordsLE32(nonce)
    [] variant = "xchacha" -> <<Lo32(ctr), W32(0)>> \o WordsLE32(SubSeq(nonce, 17, 24))
EffKey(variant, key, nonce, rounds) == IF variant = "xchacha" THEN HChaCha(key, SubSeq(nonce, 1, 16), rounds) ELSE key
NextCtr(variant, ctr) == IF variant = "original" THEN CtrAdd64(ctr, 1) ELSE CtrAdd32(ctr, 1)
\* the 64-byte keystream block number ctr
KSBlock(variant, rounds, key, nonce, ctr) == Block(InitState(EffKey(variant, key, nonce, rounds), W12(variant, ctr, nonce)), rounds)
\* keystream bytes [off, off+n) counted from the start of block `ctr` (off may exceed 64)
KeyStream(variant, rounds, key, nonce, ctr, off, n) ==
  IF n = 0 THEN <<>> ELSE
  LET k == EffKey(variant, key, nonce, rounds)
      first == off \div 64
      last == (off + n - 1) \div 64
      step(acc, j) == <<acc[1] \o Block(InitState(k, W12(variant, acc[2], nonce)), rounds), NextCtr(variant, acc[2])>>
      c0 == FoldLeft(LAMBDA c, j: NextCtr(variant, c), ctr, Rng(1, first))
      ks == FoldLeft(step, <<<<>>, c0>>, Rng(first, last))[1]
  IN SubSeq(ks, (off % 64) + 1, (off % 64) + n)
=============================================================================
