-------------------------------- MODULE FeProg ------------------------------
(* Generator of field-expression programs for property C15: a register machine over four
   registers whose contents are abstracted to a "looseness" tag, implementing the documented
   operand discipline of the limb representations: the results of from_bytes, mul, square,
   square_repeatdly, invert, pow25523 are reduced (0); add / sub / neg of reduced values are
   once-unreduced (1) and may feed a multiplication or squaring but not another add/sub/neg.
   TLC (-simulate) prints programs; the harness runs them on the real Fe type with concrete
   inputs from the boundary pool; TraceCurve recomputes the value after every step. *)
EXTENDS Integers, Sequences, FiniteSets, TLC, Json
CONSTANTS MaxOps, NPool
VARIABLES loose, nops, hist
vars == <<loose, nops, hist>>
Regs == 1..4
Init == loose = [r \in Regs |-> 0] /\ nops = 0 /\ hist = <<>>
Tick == nops < MaxOps /\ nops' = nops + 1
Load(d, i) == Tick /\ loose' = [loose EXCEPT ![d] = 0] /\ hist' = Append(hist, [op |-> "from_bytes", d |-> d, pool |-> i])
Lin2(op, d, a, b) == /\ Tick /\ loose[a] = 0 /\ loose[b] = 0 /\ loose' = [loose EXCEPT ![d] = 1]
                     /\ hist' = Append(hist, [op |-> op, d |-> d, a |-> a, b |-> b])
Neg(d, a) == Tick /\ loose[a] = 0 /\ loose' = [loose EXCEPT ![d] = 1] /\ hist' = Append(hist, [op |-> "neg", d |-> d, a |-> a])
Mul(d, a, b) == Tick /\ loose' = [loose EXCEPT ![d] = 0] /\ hist' = Append(hist, [op |-> "mul", d |-> d, a |-> a, b |-> b])
Un(op, d, a) == Tick /\ loose' = [loose EXCEPT ![d] = 0] /\ hist' = Append(hist, [op |-> op, d |-> d, a |-> a])
SqN(d, a, n) == Tick /\ loose' = [loose EXCEPT ![d] = 0] /\ hist' = Append(hist, [op |-> "square_repeatdly", d |-> d, a |-> a, n |-> n])
Obs(op, a) == Tick /\ UNCHANGED loose /\ hist' = Append(hist, [op |-> op, a |-> a])
Eq(a, b) == Tick /\ UNCHANGED loose /\ hist' = Append(hist, [op |-> IF (a + b + nops) % 2 = 0 THEN "eq" ELSE "ne", a |-> a, b |-> b])
\* the same value held in two limb representations must compare equal: d := from_bytes(to_bytes(a)); a == d; d == a
EqSame(d, a) == /\ d # a /\ nops + 3 <= MaxOps /\ nops' = nops + 3 /\ loose' = [loose EXCEPT ![d] = 0]
                /\ hist' = hist \o <<[op |-> "recanon", d |-> d, a |-> a], [op |-> "eq", a |-> a, b |-> d], [op |-> "eq", a |-> d, b |-> a]>>
\* the difference of two representations of the same reduced value is zero, whatever its limbs look like:
\* d := from_bytes(to_bytes(a)); d := d - a; to_bytes(d) = 0, is_nonzero(d) = FALSE, d = d - d ... observed through the step results
ZeroDiff(d, a) == /\ d # a /\ loose[a] = 0 /\ nops + 4 <= MaxOps /\ nops' = nops + 4 /\ loose' = [loose EXCEPT ![d] = 1]
                  /\ hist' = hist \o <<[op |-> "recanon", d |-> d, a |-> a], [op |-> "sub", d |-> d, a |-> d, b |-> a],
                                        [op |-> "is_nonzero", a |-> d], [op |-> "is_negative", a |-> d]>>
\* zero reached as v + (p - v), an integer multiple of p that is not 0: to_bytes must still give 0 and is_nonzero FALSE
\* ("comp" asks the orchestrator for the encoding of p - v, v the value of pool entry i)
ZeroSum(d, e, t, i) == /\ Cardinality({d, e, t}) = 3 /\ nops + 6 <= MaxOps /\ nops' = nops + 6
                       /\ loose' = [loose EXCEPT ![d] = 0, ![e] = 0, ![t] = 1]
                       /\ hist' = hist \o <<[op |-> "from_bytes", d |-> d, pool |-> i], [op |-> "from_bytes", d |-> e, pool |-> i, comp |-> TRUE],
                                             [op |-> "add", d |-> t, a |-> d, b |-> e], [op |-> "is_nonzero", a |-> t], [op |-> "is_negative", a |-> t],
                                             [op |-> "eq", a |-> t, b |-> t]>>
Next == \/ \E d \in Regs, i \in 1..NPool : Load(d, i)
        \/ \E d, e, t \in Regs, i \in 1..NPool : ZeroSum(d, e, t, i)
        \/ \E d, a \in Regs : EqSame(d, a) \/ ZeroDiff(d, a)
        \/ \E d, a, b \in Regs : Lin2("add", d, a, b) \/ Lin2("sub", d, a, b) \/ Mul(d, a, b)
        \/ \E d, a \in Regs : Neg(d, a) \/ Un("square", d, a) \/ Un("square_and_double", d, a) \/ Un("invert", d, a) \/ Un("pow25523", d, a)
        \/ \E d, a \in Regs, n \in {0, 1, 2, 5} : SqN(d, a, n)
        \/ \E a \in Regs : Obs("to_bytes", a) \/ Obs("is_negative", a) \/ Obs("is_nonzero", a)
        \/ \E a, b \in Regs : Eq(a, b)
Spec == Init /\ [][Next]_vars
\* the discipline: no register is ever more than once-unreduced
InvDiscipline == \A r \in Regs : loose[r] \in {0, 1}
Emit == nops = MaxOps => PrintT(ToJson(<<"GEN", hist>>))
=============================================================================
