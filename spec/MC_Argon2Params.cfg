CONSTANTS Ms = {8, 9, 15, 16, 17, 31, 32, 33, 40, 41, 63, 64, 100, 107}  Ps = {1, 2, 3, 4, 5, 13}  MaxOps = 4  Gen = FALSE
INIT Init
NEXT Next
INVARIANT InvGeometry
VIEW View
CHECK_DEADLOCK FALSE
