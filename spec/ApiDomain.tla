----------------------------- MODULE ApiDomain -----------------------------
(* The argument-shape domain of the public API (property C20): for every entry point whose arguments are not
   fixed by array types at compile time, which *shapes* (lengths, round counts, sizes, parameters, phase) are
   legal as documented, read off the crate's documentation and assertions (DESIGN.md appendix B), and which
   must be refused (deterministic panic or Err) - never truncated, read out of bounds or answered with a value.
   A shape is a record [entry, v, a, b, c, d]: v = variant / algorithm name, a..d = integers whose meaning
   depends on the entry (see each clause of Legal).
   TLC enumerates Shapes (one below / one above each legal value, zero, large) and prints one line per shape;
   the orchestrator turns each shape into a call sequence for the real crate, executed in three build profiles;
   TraceApi.tla (which extends this module) checks the outcome class of every such call against Legal. *)
EXTENDS Integers, Sequences, FiniteSets, TLC, Json
OutLen(alg) ==
  CASE alg \in {"sha1", "ripemd160"} -> 20
    [] alg \in {"sha224", "sha512_224", "sha3_224", "keccak224"} -> 28
    [] alg \in {"sha256", "sha512_256", "sha3_256", "keccak256", "blake2b", "blake2s"} -> 32      \* BLAKE2 objects are created with 32 bytes here
    [] alg \in {"sha384", "sha3_384", "keccak384"} -> 48
    [] alg \in {"sha512", "sha3_512", "keccak512"} -> 64
LegacyDigests == {"sha1", "ripemd160", "sha224", "sha256", "sha384", "sha512", "sha512_224", "sha512_256", "sha3_224", "sha3_256",
                  "sha3_384", "sha3_512", "keccak224", "keccak256", "keccak384", "keccak512", "blake2b", "blake2s"}
B2Max(v) == IF v \in {"b_dyn", "b_const", "b_legacy", "b_mac", "b", "bc"} THEN 64 ELSE 32     \* maximal output and key length
Rounds == {8, 12, 20}
Pow2(n) == 2 ^ n

Legal(s) ==
  CASE s.entry \in {"cipher_new", "aead_new"} -> s.a \in {16, 32} /\ s.b \in Rounds                 \* a = key length, b = rounds
    [] s.entry \in {"xcipher_new", "drg_new"} -> s.b \in Rounds                                       \* key is a [u8; 32]
    [] s.entry \in {"process", "aead_crypt"} -> s.a = s.b                                             \* a = input length, b = output length
    [] s.entry = "aead1" -> s.a = s.b /\ s.c = 16 /\ s.d = 1                                          \* c = tag length, d = 1: first use of the object; 2 / 3 / 4: after an encrypt / a rejected decrypt / an accepted decrypt
    [] s.entry = "blake2_new" -> s.a >= 1 /\ s.a <= B2Max(s.v) /\ s.b <= B2Max(s.v)                   \* a = output bytes, b = key length
    [] s.entry = "blake2_bits" -> s.a >= 1 /\ (s.a + 7) \div 8 <= B2Max(s.v)                          \* a = BITS of the const-generic context
    [] s.entry = "blake2_out" -> s.b = s.a /\ (s.d = 3 => s.c <= B2Max(s.v))      \* a = context output length, b = buffer; d = 1 finalize_at, 2 finalize_reset_at, 3 .._with_key_at (c = key length)
    [] s.entry = "blake2_rekey" -> s.c <= B2Max(s.v)
    [] s.entry \in {"digest_result", "hmac_result", "hkdf_extract"} -> s.b = OutLen(s.v)              \* b = length of the output buffer
    [] s.entry \in {"digest_phase", "mac_phase"} -> s.a = 0                                           \* a = 1: input() after result() without reset
    [] s.entry = "hkdf_expand" -> s.a <= 255 * OutLen(s.v)                                            \* a = requested length (0 allowed)
    [] s.entry = "pbkdf2" -> s.a >= 1                                                                 \* a = iteration count
    [] s.entry = "scrypt_params" ->                                                                   \* a = log2 N, b = r, c = p  (RFC 7914 section 2 / 6)
         /\ s.b >= 1 /\ s.c >= 1 /\ s.a >= 1 /\ s.a < 64
         /\ s.c <= (Pow2(30) - 1) \div s.b                                                            \* r * p < 2^30
         /\ (s.b < 4 => s.a < 16 * s.b)                                                               \* N < 2^(128 r / 8)
         /\ (s.a >= 27 => (s.a <= 57 /\ (57 - s.a >= 31 \/ s.b < Pow2(57 - s.a))))                    \* 128 r N addressable
    [] s.entry = "scrypt_out" -> s.a >= 1                                                             \* a = dkLen
    [] s.entry = "argon2_params" -> s.a >= 1 /\ s.a < Pow2(24) /\ s.b >= 1 /\ s.c \in {16, 19}        \* a = p, b = t, c = version
    [] s.entry = "ct_slice" -> s.a = s.b                                                              \* lengths of the two slices
    [] s.entry = "mac_cmp" -> TRUE                                                                    \* MacResult == / != : any two lengths, never a refusal
    [] s.entry = "x25519_try_from" -> s.a = 32

Sh(e, v, a, b, c, d) == [entry |-> e, v |-> v, a |-> a, b |-> b, c |-> c, d |-> d]
KeyLens == {0, 15, 16, 17, 31, 32, 33, 64}
RoundSet == {0, 7, 8, 10, 12, 20, 21}
Around(n) == {m \in {n - 1, n, n + 1} : m >= 0}
Shapes ==
       {Sh("cipher_new", v, a, b, 0, 0) : v \in {"ietf", "original", "salsa"}, a \in KeyLens, b \in RoundSet}
  \cup {Sh("xcipher_new", v, 32, b, 0, 0) : v \in {"xchacha", "xsalsa"}, b \in RoundSet}
  \cup {Sh("drg_new", "drg", 32, b, 0, 0) : b \in {7, 8, 12, 20}}
  \cup {Sh("aead_new", v, a, b, 0, 0) : v \in {"inc", "oneshot"}, a \in KeyLens, b \in {7, 8, 12, 20}}
  \cup UNION {{Sh("process", v, a, b, 0, 0) : b \in Around(a) \cup {0}} : v \in {"ietf", "xchacha", "original", "salsa", "xsalsa"}, a \in {0, 1, 64, 65}}
  \cup UNION {{Sh("aead_crypt", v, a, b, 0, 0) : b \in Around(a) \cup {0}} : v \in {"encrypt", "decrypt"}, a \in {0, 1, 17}}
  \cup UNION {{Sh("aead1", v, a, b, c, d) : b \in Around(a), c \in {0, 15, 16, 17}, d \in {1, 2, 3, 4}} : v \in {"encrypt", "decrypt"}, a \in {0, 1, 17}}
  \cup UNION {{Sh("blake2_new", v, a, b, 0, 0) : a \in {0, 1, B2Max(v), B2Max(v) + 1}, b \in {0, 1, B2Max(v), B2Max(v) + 1}} :
                v \in {"b_dyn", "s_dyn", "b_const", "s_const", "b_legacy", "s_legacy", "b_mac", "s_mac"}}
  \cup {Sh("blake2_bits", "b_const", a, 0, 0, 0) : a \in {0, 1, 7, 9, 250, 505, 511, 512, 513, 520}}
  \cup {Sh("blake2_bits", "s_const", a, 0, 0, 0) : a \in {0, 1, 7, 9, 250, 255, 256, 257, 264}}
  \cup UNION {{Sh("blake2_out", v, a, b, c, d) : b \in Around(a), c \in {0, B2Max(v), B2Max(v) + 1}, d \in {1, 2, 3}} : v \in {"b", "s", "bc", "sc"}, a \in {1, 20, 32}}         \* "bc" / "sc": the const-generic contexts
  \cup UNION {{Sh("blake2_rekey", v, 0, 0, c, 0) : c \in {0, 1, B2Max(v), B2Max(v) + 1}} : v \in {"b", "s", "bc", "sc"}}
  \cup UNION {{Sh("digest_result", v, 0, b, 0, 0) : b \in Around(OutLen(v)) \cup {0}} : v \in LegacyDigests}
  \cup {Sh("digest_phase", v, a, 0, 0, 0) : v \in LegacyDigests, a \in {0, 1}}
  \cup UNION {{Sh("hmac_result", v, 0, b, 0, 0) : b \in Around(OutLen(v)) \cup {0}} : v \in {"sha1", "sha256", "sha512", "sha3_256", "blake2b"}}
  \cup {Sh("mac_phase", v, a, 0, 0, 0) : v \in {"hmac", "poly1305", "blake2b", "blake2s"}, a \in {0, 1}}
  \cup UNION {{Sh("hkdf_extract", v, 0, b, 0, 0) : b \in Around(OutLen(v))} : v \in {"sha1", "sha256", "sha512"}}
  \cup UNION {{Sh("hkdf_expand", v, a, 0, 0, 0) : a \in {0, 1, 255 * OutLen(v) - 1, 255 * OutLen(v), 255 * OutLen(v) + 1, 256 * OutLen(v) - 1, 256 * OutLen(v), 256 * OutLen(v) + 1}} :
                v \in {"sha1", "sha256", "sha512"}}
  \cup {Sh("pbkdf2", "sha256", a, 0, 0, 0) : a \in {0, 1, 2}}
  \cup {Sh("scrypt_params", "scrypt", a, b, c, 0) : a \in {0, 1, 15, 16, 17, 31, 32, 47, 48, 56, 57, 58, 63, 64}, b \in {0, 1, 2, 3, 4, 8, 65535, 65536, 65537, Pow2(30) - 1, Pow2(30)},
                                                    c \in {0, 1, 2, 65535, 65536, 65537, 1431655766, Pow2(29), Pow2(30) - 1, Pow2(30)}}
  \cup {Sh("scrypt_out", "scrypt", a, 0, 0, 0) : a \in {0, 1}}
  \cup {Sh("argon2_params", "argon2", a, b, c, 0) : a \in {0, 1, Pow2(24) - 1, Pow2(24)}, b \in {0, 1}, c \in {0, 16, 17, 19, 20}}
  \cup {Sh("ct_slice", v, a, b, 0, 0) : v \in {"u8", "u64"}, a \in {0, 1, 16}, b \in {0, 1, 2, 16, 17}}
  \cup {Sh("mac_cmp", v, a, b, 0, 0) : v \in {"eq", "ne"}, a \in {0, 1, 16, 32}, b \in {0, 1, 2, 16, 17, 32, 64}}
  \cup {Sh("x25519_try_from", v, a, 0, 0, 0) : v \in {"secret", "public", "shared"}, a \in {0, 31, 32, 33, 64}}

VARIABLES s, done
Init == s \in Shapes /\ done = FALSE
Next == ~done /\ done' = TRUE /\ UNCHANGED s
\* one line per shape: the shape and the outcome class the specification requires
Emit == done => PrintT(ToJson(<<"GEN", [shape |-> s, legal |-> Legal(s)]>>))
\* sanity of the domain itself: every entry point has at least one legal and one refused shape (vacuity guard)
Entries == {x.entry : x \in Shapes}
AlwaysLegal == {"mac_cmp"}
BothClasses == /\ \A e \in Entries \ AlwaysLegal : (\E x \in Shapes : x.entry = e /\ Legal(x)) /\ (\E x \in Shapes : x.entry = e /\ ~Legal(x))
               /\ \A x \in Shapes : x.entry \in AlwaysLegal => Legal(x)
ASSUME BothClasses
=============================================================================
