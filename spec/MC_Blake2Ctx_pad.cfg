CONSTANTS B = 4  M = 8  MaxFed = 13  MaxOps = 3  NCtx = 1  Keys = {0, 1, 2, 3, 4}  Lens = {0, 1, 2, 3, 4, 5, 6, 7, 8, 9, 10, 11, 12, 13}  Gen = FALSE
INIT Init
NEXT Next
INVARIANT InvDigest
INVARIANT InvBuf
CHECK_DEADLOCK FALSE
