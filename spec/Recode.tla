-------------------------------- MODULE Recode ------------------------------
(* The two scalar recodings of the curve code, transcribed and checked for every scalar of a small width:
   (1) Ge::scalarmult_base (src/curve25519/ge.rs): radix-16 nibbles recoded to signed digits in -8..8 with a carry,
       the last digit absorbing the final carry;  invariant: sum digit_i 16^i = a, digits 0..N-2 in -8..7 (+8 excluded
       by the recoding), last digit 0..8 for a < 2^(4N-1).
   (2) Scalar::slide (src/curve25519/scalar/mod.rs): sliding-window recoding of the bits into odd digits of absolute
       value <= 15 with at least ... zeros between them;  invariant: sum r_i 2^i = a and every r_i is 0 or odd with |r_i| <= 15.
   N nibbles / NB = 4 N bits; the real code uses N = 64. *)
EXTENDS Integers, Sequences, SequencesExt, TLC
CONSTANTS N
VARIABLES a, done
vars == <<a, done>>
NB == 4 * N
Nibbles(x) == [i \in 1..N |-> (x \div (16 ^ (i - 1))) % 16]
Bits(x) == [i \in 1..(NB + 1) |-> IF i <= NB THEN (x \div (2 ^ (i - 1))) % 2 ELSE 0]     \* one spare position, as r[255] in the code
\* arithmetic shift right by 4 of a small signed value (i8 >> 4)
Asr4(v) == IF v >= 0 THEN v \div 16 ELSE 0 - ((15 - v) \div 16)
\* (1) for esi in es[0..N-1]: esi += carry; carry = (esi + 8) >> 4; esi -= carry << 4;   es[N-1] += carry
Radix16(x) ==
  LET step(acc, i) == LET e == acc[1][i] + acc[2]   c == Asr4(e + 8) IN <<[acc[1] EXCEPT ![i] = e - 16 * c], c>>
      r == FoldLeft(step, <<Nibbles(x), 0>>, [i \in 1..(N - 1) |-> i])
  IN [r[1] EXCEPT ![N] = r[1][N] + r[2]]
Val16(d) == FoldLeft(LAMBDA acc, i: acc + d[i] * (16 ^ (i - 1)), 0, [i \in 1..N |-> i])
\* (2) slide, line by line (indices shifted by one: TLA+ sequences are 1-based)
RECURSIVE Ripple(_, _)                                  \* for k in i+b..: if r[k] == 0 { r[k] = 1; break } r[k] = 0
Ripple(r, kk) == IF kk > Len(r) THEN r ELSE IF r[kk] = 0 THEN [r EXCEPT ![kk] = 1] ELSE Ripple([r EXCEPT ![kk] = 0], kk + 1)
RECURSIVE Inner(_, _, _)
Inner(r, i, b) ==
  IF b >= (IF 7 < Len(r) - i + 1 THEN 7 ELSE Len(r) - i + 1) THEN r            \* b in 1..min(7, 256 - i) - 1 (0-based i)
  ELSE IF r[i + b] = 0 THEN Inner(r, i, b + 1)
  ELSE IF r[i] + r[i + b] * (2 ^ b) <= 15 THEN Inner([r EXCEPT ![i] = r[i] + r[i + b] * (2 ^ b), ![i + b] = 0], i, b + 1)
  ELSE IF r[i] - r[i + b] * (2 ^ b) >= -15 THEN Inner(Ripple([r EXCEPT ![i] = r[i] - r[i + b] * (2 ^ b)], i + b), i, b + 1)
  ELSE r
Slide(x) == FoldLeft(LAMBDA r, i: IF r[i] # 0 THEN Inner(r, i, 1) ELSE r, Bits(x), [i \in 1..(NB + 1) |-> i])
Val2(r) == FoldLeft(LAMBDA acc, i: acc + r[i] * (2 ^ (i - 1)), 0, [i \in 1..Len(r) |-> i])
Init == a \in 0..(2 ^ (NB - 1) - 1) /\ done = FALSE                      \* scalars below 2^(4N-1): the documented operand range (2^255)
Check == ~done /\ done' = TRUE /\ UNCHANGED a
Next == Check
InvRadix16 == LET d == Radix16(a) IN /\ Val16(d) = a
                                      /\ \A i \in 1..(N - 1) : d[i] >= -8 /\ d[i] <= 7
                                      /\ d[N] >= 0 /\ d[N] <= 8
InvSlide == LET r == Slide(a) IN /\ Val2(r) = a
                                 /\ \A i \in 1..Len(r) : r[i] = 0 \/ (r[i] % 2 = 1 /\ r[i] >= -15 /\ r[i] <= 15)
=============================================================================
