----------------------------- MODULE TraceHash -----------------------------
(* Trace validation for the hashing contexts (properties C01, C02, C16, C20).
   Input: an observation trace recorded by harness/drive from the real crate: one history per
   line, {id, cls:"hash", alg, [api, outlen|bits, key, keyed], ev:[{op, x, ..., out}]}.
   The abstract state of a context is what the property says the digest may depend on:
   the key it was (re)created with and the bytes fed since creation or the last reset
   (plus the BLAKE2 counter preset when the verification hook was used).  Every event's
   observed outcome must be the one the specification gives; the functional modules
   (FIPS 180-4, FIPS 202, RFC 7693, RIPEMD-160) are the oracle for digests.
   Each history is an independent initial state; one line is printed per history:
   ["DONE", id, events] or ["BAD", id, position, expected, observed]. *)
EXTENDS Hashes, Json, IOUtils
Rec == ndJsonDeserialize(IOEnv.TRACE)
VARIABLES hi, l, st, ok, res      \* res: the specification's answer for the event just consumed (evaluated once per step)
vars == <<hi, l, st, ok, res>>

Has(r, f) == f \in DOMAIN r
OutLenOf(h) == IF IsBlake(h.alg) THEN (IF Has(h, "outlen") THEN h.outlen ELSE (h.bits + 7) \div 8)
               ELSE FixedOutLen(h.alg)
KeyOf(h) == IF Has(h, "key") THEN h.key ELSE <<>>
ZeroCtr(h) == IF h.alg = "blake2b" THEN Zeros(8) ELSE IF h.alg = "blake2s" THEN Zeros(4) ELSE <<>>
\* legal construction parameters (BLAKE2 only; RFC 7693: 1 <= nn <= 64|32, kk <= 64|32);
\* for the const-generic API the bit count must be positive
LegalNew(h) == ~IsBlake(h.alg) \/
               ( /\ OutLenOf(h) >= 1 /\ OutLenOf(h) <= MaxOut(h.alg) /\ Len(KeyOf(h)) <= MaxKey(h.alg)
                 /\ (Has(h, "bits") => h.bits > 0) )
Dead == [live |-> FALSE, key |-> <<>>, fed |-> <<>>, start |-> <<>>]
FreshCtx(h, key) == [live |-> TRUE, key |-> key, fed |-> <<>>, start |-> ZeroCtr(h)]
NSlot == 4
Fresh(h) == [x \in 1..NSlot |-> IF x = 1 /\ LegalNew(h) /\ ~Has(h, "noctx") THEN FreshCtx(h, KeyOf(h)) ELSE Dead]

V(b) == [k |-> "v", v |-> b]
N == [k |-> "n", v |-> <<>>]
P == [k |-> "p", v |-> <<>>]
DigestOf(h, c) == Digest(h.alg, c.key, OutLenOf(h), c.start, c.fed)
\* counter limbs as logged by the harness: t0 and t1 are 4-limb (64-bit) values; BLAKE2s uses 2 limbs of each
CtrOf(h, e) == IF h.alg = "blake2b" THEN e.t0 \o e.t1 ELSE SubSeq(e.t0, 1, 2) \o SubSeq(e.t1, 1, 2)

Apply(h, s, e) ==
  LET x == IF Has(e, "x") THEN e.x ELSE 1
      c == s[x]
  IN CASE e.op = "new" -> [st |-> s, out |-> IF LegalNew(h) THEN N ELSE P]
       [] e.op = "oneshot" -> [st |-> s, out |-> V(Digest(h.alg, KeyOf(h), OutLenOf(h), ZeroCtr(h), e.data))]
       [] e.op \in {"update", "update_mut"} ->
            [st |-> [s EXCEPT ![x].fed = c.fed \o e.data], out |-> N]
       [] e.op = "clone" -> [st |-> [s EXCEPT ![e.y] = c], out |-> N]
       [] e.op = "reset" -> [st |-> [s EXCEPT ![x] = FreshCtx(h, <<>>)], out |-> N]
       [] e.op = "reset_with_key" ->
            IF Len(e.key) <= MaxKey(h.alg) THEN [st |-> [s EXCEPT ![x] = FreshCtx(h, e.key)], out |-> N]
            ELSE [st |-> s, out |-> P]
       [] e.op = "finalize" -> [st |-> [s EXCEPT ![x] = Dead], out |-> V(DigestOf(h, c))]
       [] e.op = "finalize_reset" -> [st |-> [s EXCEPT ![x] = FreshCtx(h, <<>>)], out |-> V(DigestOf(h, c))]
       [] e.op = "finalize_reset_with_key" ->
            IF Len(e.key) <= MaxKey(h.alg) THEN [st |-> [s EXCEPT ![x] = FreshCtx(h, e.key)], out |-> V(DigestOf(h, c))]
            ELSE [st |-> s, out |-> P]
       \* explicit output buffer: its length must be the context's output length (refused before any change
       \* for the by-reference calls; the by-value finalize_at consumes the context either way)
       [] e.op = "finalize_at" -> [st |-> [s EXCEPT ![x] = Dead], out |-> IF e.n = OutLenOf(h) THEN V(DigestOf(h, c)) ELSE P]
       [] e.op = "finalize_reset_at" ->
            IF e.n = OutLenOf(h) THEN [st |-> [s EXCEPT ![x] = FreshCtx(h, <<>>)], out |-> V(DigestOf(h, c))]
            ELSE [st |-> s, out |-> P]
       [] e.op = "finalize_reset_with_key_at" ->
            IF e.n = OutLenOf(h) /\ Len(e.key) <= MaxKey(h.alg)
            THEN [st |-> [s EXCEPT ![x] = FreshCtx(h, e.key)], out |-> V(DigestOf(h, c))]
            ELSE [st |-> s, out |-> P]
       [] e.op = "set_length" -> [st |-> [s EXCEPT ![x].start = e.off], out |-> N]      \* processed-bytes count preset (16 LE bytes), fresh context
       [] e.op = "set_counter" -> [st |-> [s EXCEPT ![x].start = CtrOf(h, e)], out |-> N]

Init == hi \in 1..Len(Rec) /\ l = 1 /\ st = Fresh(Rec[hi]) /\ ok = TRUE /\ res = <<>>
Step == /\ ok /\ l <= Len(Rec[hi].ev)
        /\ res' = Apply(Rec[hi], st, Rec[hi].ev[l])
        /\ LET h == Rec[hi]
               e == h.ev[l]
               good == e.out.k = res'.out.k /\ e.out.v = res'.out.v
           IN /\ st' = IF good THEN res'.st ELSE st
              /\ ok' = good
              /\ IF good THEN TRUE ELSE PrintT(ToJson(<<"BAD", h.id, l, res'.out, e.out>>))
              /\ IF good /\ l = Len(h.ev) THEN PrintT(ToJson(<<"DONE", h.id, l>>)) ELSE TRUE
        /\ l' = l + 1 /\ UNCHANGED hi
Spec == Init /\ [][Step]_vars
=============================================================================
