-------------------------------- MODULE MacObj ------------------------------
(* Object machine of the result-bearing objects: Hmac<D> (finished), Poly1305 (leftover,
   finalized), the BLAKE2 Mac wrappers and every legacy Digest wrapper (computed), transcribed
   from src/hmac.rs, src/poly1305.rs, src/blake2b.rs, src/sha2.rs, with the flags that gate
   misuse.  Data is abstract: the value of a MAC is the free term <<"mac", key, fed>>; what
   matters here is WHICH (key, fed) a returned value belongs to and which calls panic.
   Kind selects the transcription:
     "hmac"      finished flag; second raw_result re-asks the (already computed) inner digest -> panics
     "poly"      16-byte staging buffer (B), leftover, finalized; PolyFinish selects when `finalized` is set:
                 "leftover" = only when a partial block was pending (the pinned code), "always" = at the end of finish
     "b2mac"     computed flag; ResetKeeps selects whether Mac::reset keeps the key ("keep") or drops it ("drop", pinned)
     "digest"    computed flag, no key *)
EXTENDS Integers, Sequences, SequencesExt, TLC, Json
CONSTANTS Kind, B, MaxOps, NCtx, Lens, PolyFinish, ResetKeeps, Gen
VARIABLES obj, nops, nextByte, lastOut, hist
vars == <<obj, nops, nextByte, lastOut, hist>>
Objs == 1..NCtx
KEY == "k0"
Mac(key, fed) == [t |-> "val", v |-> <<"mac", key, fed>>]
PANIC == [t |-> "panic", v |-> <<>>]
OKAY == [t |-> "ok", v |-> <<>>]
NONE == [t |-> "none", v |-> <<>>]
\* h = value of the running accumulator: "acc" of the absorbed complete blocks, or a finished tag
Fresh(key) == [live |-> TRUE, key |-> key, ckey |-> key, fed |-> <<>>, leftover |-> 0, flag |-> FALSE, acc |-> <<"acc", <<>>>>, ret |-> NONE]
Dead == [live |-> FALSE, key |-> "", ckey |-> "", fed |-> <<>>, leftover |-> 0, flag |-> FALSE, acc |-> <<>>, ret |-> NONE]
\* key = the key the user constructed the object with (specification); ckey = the key the code currently holds
Chunk(len) == [i \in 1..len |-> nextByte + i - 1]
Log(rec) == IF Gen THEN Append(hist, rec) ELSE hist
Tick == nops < MaxOps /\ nops' = nops + 1
Init == obj = [x \in Objs |-> IF x = 1 THEN Fresh(KEY) ELSE Dead] /\ nops = 0 /\ nextByte = 1 /\ lastOut = <<>> /\ hist = <<>>

\* ---- input: assert(!flag) for every kind ("poly": assert!(!self.finalized))
Input(x, len) ==
  /\ Tick /\ obj[x].live /\ Len(obj[x].fed) + len <= 3 * B + 2
  /\ IF obj[x].flag
     THEN /\ lastOut' = [kind |-> "input", out |-> PANIC, spec |-> IF obj[x].ret # NONE THEN PANIC ELSE OKAY] /\ UNCHANGED obj
     ELSE /\ obj' = [obj EXCEPT ![x].fed = @ \o Chunk(len), ![x].leftover = (@ + len) % B]
          /\ lastOut' = [kind |-> "input", out |-> OKAY, spec |-> IF obj[x].ret # NONE THEN PANIC ELSE OKAY]
  /\ nextByte' = nextByte + len
  /\ hist' = Log([op |-> "input", x |-> x, len |-> len, br |-> IF obj[x].flag THEN "afterresult" ELSE IF (obj[x].leftover + len) % B = 0 THEN "aligned" ELSE "partial"])
\* ---- result / raw_result
\* value the code returns now: the MAC of what the code holds, or for Poly1305 re-finishing an already finished accumulator
Result(x, op) ==
  /\ Tick /\ obj[x].live
  /\ LET c == obj[x]
         first == c.ret = NONE
         val == Mac(c.ckey, c.fed)
     IN CASE Kind \in {"hmac", "b2mac", "digest"} ->
               IF c.flag THEN /\ lastOut' = [kind |-> "result", out |-> PANIC, spec |-> c.ret] /\ UNCHANGED obj
               ELSE /\ obj' = [obj EXCEPT ![x].flag = TRUE, ![x].ret = val]
                    /\ lastOut' = [kind |-> "result", out |-> val, spec |-> Mac(c.key, c.fed)]
          [] Kind = "poly" ->
               IF c.flag THEN /\ lastOut' = [kind |-> "result", out |-> c.ret, spec |-> c.ret] /\ UNCHANGED obj      \* finalized: h is written out again
               ELSE LET out == IF first THEN val ELSE [t |-> "val", v |-> <<"refinished", c.ret.v>>]                                \* finish() run on the finished accumulator
                        setflag == PolyFinish = "always" \/ c.leftover > 0
                    IN /\ obj' = [obj EXCEPT ![x].flag = setflag, ![x].ret = out]
                       /\ lastOut' = [kind |-> "result", out |-> out, spec |-> IF first THEN Mac(c.key, c.fed) ELSE c.ret]
  /\ UNCHANGED nextByte
  /\ hist' = Log([op |-> op, x |-> x, br |-> IF obj[x].ret # NONE THEN "again" ELSE IF obj[x].leftover = 0 THEN "aligned" ELSE "partial"])
Reset(x) ==
  /\ Tick /\ obj[x].live
  /\ obj' = [obj EXCEPT ![x] = [Fresh(obj[x].key) EXCEPT !.ckey = IF Kind = "b2mac" /\ ResetKeeps = "drop" THEN "" ELSE obj[x].ckey]]
  /\ lastOut' = <<>> /\ UNCHANGED nextByte /\ hist' = Log([op |-> "reset", x |-> x, br |-> IF obj[x].ret # NONE THEN "afterresult" ELSE "midstream"])
Clone(x, y) ==
  /\ Tick /\ Kind # "hmac" /\ obj[x].live /\ ~obj[y].live /\ obj' = [obj EXCEPT ![y] = obj[x]]
  /\ lastOut' = <<>> /\ UNCHANGED nextByte /\ hist' = Log([op |-> "clone", x |-> x, y |-> y])
Next == \E x \in Objs : \/ \E len \in Lens : Input(x, len)
                        \/ Result(x, "result") \/ Result(x, "raw_result")
                        \/ Reset(x)
                        \/ \E y \in Objs \ {x} : Clone(x, y)
Spec == Init /\ [][Next]_vars
\* C09: a result is the MAC of (construction key, bytes since reset); asked again it is the same value or a panic;
\* input after a result panics
InvResult == (lastOut # <<>> /\ lastOut.kind = "result") => (lastOut.out = lastOut.spec \/ (lastOut.out = PANIC /\ lastOut.spec # NONE))
InvInput == (lastOut # <<>> /\ lastOut.kind = "input") => lastOut.out = lastOut.spec
\* ---- guided generation ("reuse matrix"): every history of the shape  input{0,2} result? reset input{0,2} result  on object 1, i.e. every
\* pair of (what the object held when it was reset, what it is fed afterwards); used as a CONSTRAINT together with EmitReuse.  Buffers that are
\* reused across a reset are where stale content hides; the plain generation tree reaches these histories only at depths whose trees are sampled.
IsRes(o) == o \in {"result", "raw_result"}
ResetAt == IF \E i \in 1..Len(hist) : hist[i].op = "reset" THEN CHOOSE i \in 1..Len(hist) : hist[i].op = "reset" /\ \A j \in 1..(i - 1) : hist[j].op # "reset" ELSE 0
PartOK(p) == /\ \A i \in 1..Len(p) : p[i].op \in {"input", "result"} /\ p[i].x = 1
             /\ Len(SelectSeq(p, LAMBDA e : e.op = "input")) <= 2
             /\ \A i \in 1..Len(p) : IsRes(p[i].op) => i = Len(p)
ReuseShape == LET k == ResetAt IN IF k = 0 THEN PartOK(hist) ELSE PartOK(SubSeq(hist, 1, k - 1)) /\ PartOK(SubSeq(hist, k + 1, Len(hist)))
EmitReuse == LET k == ResetAt IN (Gen /\ k > 0 /\ k < Len(hist) /\ IsRes(hist[Len(hist)].op)) => PrintT(ToJson(<<"GEN", hist>>))
Emit == (Gen /\ nops = MaxOps /\ \E i \in 1..Len(hist) : hist[i].op \in {"result", "raw_result"}) => PrintT(ToJson(<<"GEN", hist>>))
=============================================================================
