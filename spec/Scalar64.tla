------------------------------ MODULE Scalar64 ------------------------------
(* The 56-bit-limb scalar arithmetic of src/curve25519/scalar/scalar64.rs (a port of ed25519-donna's modm-donna-64bit), transcribed
   statement by statement: lt (the top bit of a wrapping 64-bit subtraction), lt_order (the borrow chain behind from_bytes_canonical),
   reduce256 (trial subtraction of the order with a masked select), barrett_reduce256 (q3 = (q1 * mu) >> 264, r2 = q3 * m mod 2^264,
   r1 - r2 mod 2^264, two conditional subtractions), reduce_from_wide_bytes, add, mul, muladd, from_bytes, to_bytes.
   A 64-bit or 128-bit machine word is a BigNat value; `>>`, `&` with a mask of low bits and wrapping arithmetic are ShrB / LowB / W64*.
   The constants M (the order) and MU (floor(2^512 / M)) are the numbers written in the source.
   Two uses, as for Fe64 and Poly1305Donna:
     * refinement: on every input handed to it the transcribed algorithm agrees with the specification of the scalar field (Ed25519.tla:
       plain arithmetic modulo L by shift-and-subtract);
     * case analysis: the borrow / select branches each evaluation takes are named (`lto_*`, `r256_*`, `bar_*`); the check requires
       every class to be reached by the inputs it replays on the real crate (a class nothing reaches is a vacuous run).
   Trace form: one event per history, as in the class "fn" of the harness: scalar_reduce_wide {bytes}, scalar_canonical {bytes},
   scalar_muladd {a, b, c}, scalar_roundtrip {bytes}. *)
EXTENDS Ed25519, Json, IOUtils
Rec == ndJsonDeserialize(IOEnv.TRACE)
VARIABLES hi, l, ok
vars == <<hi, l, ok>>

MM == <<<<5101, 1966, 1687, 1222, 1>>, <<5720, 7398, 2237, 5053, 15>>, <<5342, 0, 0, 0, 0>>, <<0, 0, 0, 0, 0>>, <<0, 0, 4, 0, 0>>>>
MUU == <<<<4891, 4448, 2242, 6603, 9>>, <<2029, 6477, 536, 698, 2>>, <<262, 8025, 8191, 8191, 15>>, <<8191, 8191, 8191, 8191, 15>>, <<8191, 8191, 1023, 0, 0>>>>

\* ---- machine words
W == 10                                                     \* 130 bits: room for every 128-bit intermediate
N(x) == TrimTo(PadTo(x, W), W)
ShrB(x, n) == LET q == n \div 13   r == n % 13
                  y == IF Len(x) <= q THEN <<0>> ELSE SubSeq(x, q + 1, Len(x))
              IN IF r = 0 THEN y
                 ELSE [i \in 1..Len(y) |-> (y[i] \div 2 ^ r) + (IF i < Len(y) THEN (y[i + 1] % 2 ^ r) * 2 ^ (13 - r) ELSE 0)]
LowB(x, n) == LET q == n \div 13   r == n % 13   y == PadTo(x, q + 1)
              IN IF r = 0 THEN SubSeq(y, 1, q) ELSE SubSeq(y, 1, q) \o <<y[q + 1] % 2 ^ r>>
Pow2N(n) == ShlLimbs(<<2 ^ (n % 13)>>, n \div 13)
ShlB(x, n) == MulN(x, Pow2N(n))
Ge(a, b) == GeN(N(a), N(b))
NZ(x) == ~IsZeroN(x)
W64Sub(a, b) == IF Ge(a, b) THEN SubN(N(a), N(b)) ELSE SubN(AddN(N(a), Pow2N(64)), N(b))          \* a.wrapping_sub(b)
W64Add(a, b) == LowB(AddN(a, b), 64)                                                                 \* a.wrapping_add(b)
Lt(a, b) == BitL(W64Sub(a, b), 63)                                                                   \* (a.wrapping_sub(b)) >> 63
Bit(b, sh) == IF b = 1 THEN Pow2N(sh) ELSE <<0>>                                                    \* b << sh
Small(b) == <<b>>
M56(x) == LowB(x, 56)
M40(x) == LowB(x, 40)
\* ---- lt_order: v - L < 0 <=> the last borrow is 1
LtOrder(v) ==
  LET b0 == Lt(v[1], MM[1])
      b1 == Lt(v[2], AddN(Small(b0), MM[2]))
      b2 == Lt(v[3], AddN(Small(b1), MM[3]))
      b3 == Lt(v[4], AddN(Small(b2), MM[4]))
      b4 == Lt(v[5], AddN(Small(b3), MM[5]))
  IN [lt |-> b4 = 1,
      cov |-> (IF b0 = 1 THEN {"lto_b0"} ELSE {}) \cup (IF b1 = 1 THEN {"lto_b1"} ELSE {}) \cup (IF b2 = 1 THEN {"lto_b2"} ELSE {})
              \cup (IF b3 = 1 THEN {"lto_b3"} ELSE {}) \cup (IF b2 = 1 /\ b3 = 0 THEN {"lto_b2_absorbed_by_limb3"} ELSE {})
              \cup (IF b4 = 1 THEN {"lto_below"} ELSE {"lto_not_below"})
              \cup (IF b4 = 0 /\ v[5] = MM[5] /\ b3 = 0 THEN {"lto_top_equal_not_below"} ELSE {})]
\* ---- reduce256: t = r - m limb by limb; keep r when the subtraction borrows out of the top limb
Reduce256(r) ==
  LET b0 == Lt(r[1], MM[1])   t0 == W64Add(W64Sub(r[1], MM[1]), Bit(b0, 56))   pb1 == AddN(Small(b0), MM[2])
      b1 == Lt(r[2], pb1)     t1 == W64Add(W64Sub(r[2], pb1), Bit(b1, 56))     pb2 == AddN(Small(b1), MM[3])
      b2 == Lt(r[3], pb2)     t2 == W64Add(W64Sub(r[3], pb2), Bit(b2, 56))     pb3 == AddN(Small(b2), MM[4])
      b3 == Lt(r[4], pb3)     t3 == W64Add(W64Sub(r[4], pb3), Bit(b3, 56))     pb4 == AddN(Small(b3), MM[5])
      b4 == Lt(r[5], pb4)     t4 == W64Add(W64Sub(r[5], pb4), Bit(b4, 32))
      sub == b4 = 0                                            \* mask = b.wrapping_sub(1): all ones when no borrow
  IN [v |-> IF sub THEN <<t0, t1, t2, t3, t4>> ELSE r,
      cov |-> IF ~sub THEN {"r256_keep"}
              ELSE {"r256_sub"} \cup (IF b0 = 1 THEN {"r256_b0"} ELSE {}) \cup (IF b1 = 1 THEN {"r256_b1"} ELSE {}) \cup (IF b2 = 1 THEN {"r256_b2"} ELSE {})
                   \cup (IF b3 = 1 THEN {"r256_b3"} ELSE {}) \cup (IF b2 = 1 /\ b3 = 0 THEN {"r256_b2_absorbed_by_limb3"} ELSE {})]
\* ---- barrett_reduce256
Sum(xs) == FoldLeft(LAMBDA acc, x : AddN(acc, x), <<0>>, xs)
m(a, b) == MulN(a, b)
U64(c) == LowB(c, 64)                                         \* c as u64
Barrett(q1, r1) ==
  LET c0 == Sum(<<m(MUU[1], q1[4]), m(MUU[4], q1[1]), m(MUU[2], q1[3]), m(MUU[3], q1[2])>>)                                   f0 == ShrB(c0, 56)
      c1 == Sum(<<m(MUU[1], q1[5]), f0, m(MUU[5], q1[1]), m(MUU[4], q1[2]), m(MUU[2], q1[4]), m(MUU[3], q1[3])>>)
      g1 == U64(c1)   q30a == LowB(ShrB(g1, 40), 16)                                                                            f1 == ShrB(c1, 56)
      c2 == Sum(<<m(MUU[5], q1[2]), f1, m(MUU[2], q1[5]), m(MUU[3], q1[4]), m(MUU[4], q1[3])>>)
      g2 == U64(c2)   q30 == AddN(q30a, M56(ShlB(g2, 16)))   q31a == LowB(ShrB(g2, 40), 16)                                      f2 == ShrB(c2, 56)
      c3 == Sum(<<m(MUU[5], q1[3]), f2, m(MUU[3], q1[5]), m(MUU[4], q1[4])>>)
      g3 == U64(c3)   q31 == AddN(q31a, M56(ShlB(g3, 16)))   q32a == LowB(ShrB(g3, 40), 16)                                      f3 == ShrB(c3, 56)
      c4 == Sum(<<m(MUU[5], q1[4]), f3, m(MUU[4], q1[5])>>)
      g4 == U64(c4)   q32 == AddN(q32a, M56(ShlB(g4, 16)))   q33a == LowB(ShrB(g4, 40), 16)                                      f4 == ShrB(c4, 56)
      c5 == Sum(<<m(MUU[5], q1[5]), f4>>)
      g5 == U64(c5)   q33 == AddN(q33a, M56(ShlB(g5, 16)))   q34a == LowB(ShrB(g5, 40), 16)                                      f5 == U64(ShrB(c5, 56))
      q34 == U64(AddN(q34a, ShlB(f5, 16)))
      \* r2 = q3 * m mod 2^264
      d0 == m(MM[1], q30)                                                                            r20 == M56(U64(d0))   e0 == ShrB(d0, 56)
      d1 == Sum(<<m(MM[1], q31), e0, m(MM[2], q30)>>)                                                 r21 == M56(U64(d1))   e1 == ShrB(d1, 56)
      d2 == Sum(<<m(MM[1], q32), e1, m(MM[3], q30), m(MM[2], q31)>>)                                  r22 == M56(U64(d2))   e2 == ShrB(d2, 56)
      d3 == Sum(<<m(MM[1], q33), e2, m(MM[4], q30), m(MM[2], q32), m(MM[3], q31)>>)                   r23 == M56(U64(d3))   e3 == ShrB(d3, 56)
      d4 == Sum(<<m(MM[1], q34), e3, m(MM[5], q30), m(MM[4], q31), m(MM[2], q33), m(MM[3], q32)>>)    r24 == M40(U64(d4))
      \* out = r1 - r2 mod 2^264
      p0 == r20                       b0 == Lt(r1[1], p0)   o0 == W64Add(W64Sub(r1[1], p0), Bit(b0, 56))
      p1 == AddN(Small(b0), r21)      b1 == Lt(r1[2], p1)   o1 == W64Add(W64Sub(r1[2], p1), Bit(b1, 56))
      p2 == AddN(Small(b1), r22)      b2 == Lt(r1[3], p2)   o2 == W64Add(W64Sub(r1[3], p2), Bit(b2, 56))
      p3 == AddN(Small(b2), r23)      b3 == Lt(r1[4], p3)   o3 == W64Add(W64Sub(r1[4], p3), Bit(b3, 56))
      p4 == AddN(Small(b3), r24)      b4 == Lt(r1[5], p4)   o4 == W64Add(W64Sub(r1[5], p4), Bit(b4, 40))
      s1 == Reduce256(<<o0, o1, o2, o3, o4>>)
      s2 == Reduce256(s1.v)
      nsub == (IF "r256_sub" \in s1.cov THEN 1 ELSE 0) + (IF "r256_sub" \in s2.cov THEN 1 ELSE 0)
  IN [v |-> s2.v,
      cov |-> (s1.cov \cup s2.cov) \cup (IF b4 = 1 THEN {"bar_top_borrow"} ELSE {"bar_no_top_borrow"})
              \cup (CASE nsub = 0 -> {"bar_nsub0"} [] nsub = 1 -> {"bar_nsub1"} [] OTHER -> {"bar_nsub2"})]
\* ---- byte conversions (windows of the little-endian bit string; the code assembles the same windows from 64-bit loads)
Win(bits, from, w) == LimbsOfBits([i \in 1..w |-> IF from + i <= Len(bits) THEN bits[from + i] ELSE 0], 5)
FromBytes56(b) == LET bits == BitsOf(b) IN <<Win(bits, 0, 56), Win(bits, 56, 56), Win(bits, 112, 56), Win(bits, 168, 56), Win(bits, 224, 32)>>
\* to_bytes: c_k = limb_{k+1} << (56 - 8k) | limb_k >> 8k as wrapping 64-bit words; OR, not addition
OrW(a, b) == LimbsOfBits([i \in 1..64 |-> IF BitL(a, i - 1) = 1 \/ BitL(b, i - 1) = 1 THEN 1 ELSE 0], 5)
ToBytes56(v) ==
  LET c0 == OrW(U64(ShlB(v[2], 56)), v[1])
      c1 == OrW(U64(ShlB(v[3], 48)), ShrB(v[2], 8))
      c2 == OrW(U64(ShlB(v[4], 40)), ShrB(v[3], 16))
      c3 == OrW(U64(ShlB(v[5], 32)), ShrB(v[4], 24))
  IN BytesOfLimbs(c0, 8) \o BytesOfLimbs(c1, 8) \o BytesOfLimbs(c2, 8) \o BytesOfLimbs(c3, 8)
ReduceWide64(b64) ==
  LET bits == BitsOf(b64)
      r1 == <<Win(bits, 0, 56), Win(bits, 56, 56), Win(bits, 112, 56), Win(bits, 168, 56), Win(bits, 224, 40)>>         \* x mod 2^264
      q1 == <<Win(bits, 248, 56), Win(bits, 304, 56), Win(bits, 360, 56), Win(bits, 416, 56), Win(bits, 472, 40)>>     \* x >> 248
  IN Barrett(q1, r1)
\* ---- add, mul, muladd
SAdd(x, y) ==
  LET c0 == AddN(x[1], y[1])                       r0 == M56(c0)
      c1 == Sum(<<ShrB(c0, 56), x[2], y[2]>>)      r1 == M56(c1)
      c2 == Sum(<<ShrB(c1, 56), x[3], y[3]>>)      r2 == M56(c2)
      c3 == Sum(<<ShrB(c2, 56), x[4], y[4]>>)      r3 == M56(c3)
      c4 == Sum(<<ShrB(c3, 56), x[5], y[5]>>)
  IN Reduce256(<<r0, r1, r2, r3, U64(c4)>>)
SMul56(x, y) ==
  LET c0 == m(x[1], y[1])                                                                                   r10 == M56(U64(c0))   f0 == ShrB(c0, 56)
      c1 == Sum(<<m(x[1], y[2]), f0, m(x[2], y[1])>>)                                                        r11 == M56(U64(c1))   f1 == ShrB(c1, 56)
      c2 == Sum(<<m(x[1], y[3]), f1, m(x[3], y[1]), m(x[2], y[2])>>)                                         r12 == M56(U64(c2))   f2 == ShrB(c2, 56)
      c3 == Sum(<<m(x[1], y[4]), f2, m(x[4], y[1]), m(x[2], y[3]), m(x[3], y[2])>>)                          r13 == M56(U64(c3))   f3 == ShrB(c3, 56)
      c4 == Sum(<<m(x[1], y[5]), f3, m(x[5], y[1]), m(x[4], y[2]), m(x[2], y[4]), m(x[3], y[3])>>)
      r14 == M40(U64(c4))   q10a == LowB(ShrB(U64(c4), 24), 32)                                                                    f4 == ShrB(c4, 56)
      c5 == Sum(<<m(x[5], y[2]), f4, m(x[2], y[5]), m(x[3], y[4]), m(x[4], y[3])>>)
      g5 == U64(c5)   q10 == AddN(q10a, M56(U64(ShlB(g5, 32))))   q11a == LowB(ShrB(g5, 24), 32)                                    f5 == ShrB(c5, 56)
      c6 == Sum(<<m(x[5], y[3]), f5, m(x[3], y[5]), m(x[4], y[4])>>)
      g6 == U64(c6)   q11 == AddN(q11a, M56(U64(ShlB(g6, 32))))   q12a == LowB(ShrB(g6, 24), 32)                                    f6 == ShrB(c6, 56)
      c7 == Sum(<<m(x[5], y[4]), f6, m(x[4], y[5])>>)
      g7 == U64(c7)   q12 == AddN(q12a, M56(U64(ShlB(g7, 32))))   q13a == LowB(ShrB(g7, 24), 32)                                    f7 == ShrB(c7, 56)
      c8 == Sum(<<m(x[5], y[5]), f7>>)
      g8 == U64(c8)   q13 == AddN(q13a, M56(U64(ShlB(g8, 32))))   q14a == LowB(ShrB(g8, 24), 32)                                    f8 == U64(ShrB(c8, 56))
      q14 == U64(AddN(q14a, U64(ShlB(f8, 32))))
  IN Barrett(<<q10, q11, q12, q13, q14>>, <<r10, r11, r12, r13, r14>>)
SMulAdd(a, b, c) == LET p == SMul56(a, b)   s == SAdd(p.v, c) IN [v |-> s.v, cov |-> p.cov \cup {"add:" \o n : n \in s.cov}]

CovNames == <<"lto_b0", "lto_b1", "lto_b2", "lto_b3", "lto_b2_absorbed_by_limb3", "lto_below", "lto_not_below", "lto_top_equal_not_below",
              "r256_keep", "r256_sub", "r256_b0", "r256_b1", "r256_b2", "r256_b3", "r256_b2_absorbed_by_limb3",
              "bar_top_borrow", "bar_no_top_borrow", "bar_nsub0", "bar_nsub1", "bar_nsub2", "add:r256_keep", "add:r256_sub", "add:r256_b2_absorbed_by_limb3">>
CovSeq(S) == SelectSeq(CovNames, LAMBDA n : n \in S)
Eval(e) ==
  CASE e.op = "scalar_reduce_wide" -> LET r == ReduceWide64(e.bytes) IN [got |-> ToBytes56(r.v), want |-> ReduceWide(e.bytes), cov |-> r.cov]
    [] e.op = "scalar_canonical" -> LET r == LtOrder(FromBytes56(e.bytes)) IN [got |-> <<IF r.lt THEN 1 ELSE 0>>, want |-> <<IF LtL(ScalarOfBytes(e.bytes)) THEN 1 ELSE 0>>, cov |-> r.cov]
    [] e.op = "scalar_muladd" -> LET r == SMulAdd(FromBytes56(e.a), FromBytes56(e.b), FromBytes56(e.c))
                                 IN [got |-> ToBytes56(r.v), want |-> BytesOfLimbs(MulAddL(ScalarOfBytes(e.a), ScalarOfBytes(e.b), ScalarOfBytes(e.c)), 32), cov |-> r.cov]
    [] e.op = "scalar_roundtrip" -> [got |-> ToBytes56(FromBytes56(e.bytes)), want |-> e.bytes, cov |-> {}]
    [] OTHER -> [got |-> <<>>, want |-> <<>>, cov |-> {"skip"}]
Init == hi \in 1..Len(Rec) /\ l = 1 /\ ok = TRUE
Step == /\ ok /\ l <= Len(Rec[hi].ev)
        /\ LET h == Rec[hi]
               r == Eval(h.ev[l])
               good == r.got = r.want
           IN /\ ok' = good
              /\ PrintT(ToJson(<<"COV", h.id, CovSeq(r.cov)>>))
              /\ IF good THEN TRUE ELSE PrintT(ToJson(<<"BAD", h.id, l, [k |-> "v", v |-> r.want], [k |-> "v", v |-> r.got]>>))
              /\ IF good /\ l = Len(h.ev) THEN PrintT(ToJson(<<"DONE", h.id, l>>)) ELSE TRUE
        /\ l' = l + 1 /\ UNCHANGED hi
Spec == Init /\ [][Step]_vars
=============================================================================
