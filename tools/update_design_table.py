#!/usr/bin/env python3
"""Regenerates the seeded-change table of DESIGN.md (between the SEEDED-TABLE markers) from seeded/*/meta.json."""
import os, subprocess
ROOT = os.path.dirname(os.path.dirname(os.path.abspath(__file__)))
t = subprocess.run(["python3", os.path.join(ROOT, "tools", "seeded_table.py")], capture_output=True, text=True).stdout
p = os.path.join(ROOT, "DESIGN.md")
s = open(p).read()
a, b = s.index("<!-- SEEDED-TABLE-BEGIN -->"), s.index("<!-- SEEDED-TABLE-END -->")
open(p, "w").write(s[:a] + "<!-- SEEDED-TABLE-BEGIN -->\n" + t + s[b:])
