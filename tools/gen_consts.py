#!/usr/bin/env python3
"""Development aid: prints the numeric constants of the standards in the limb formats used by
the TLA+ functional modules (32-bit = <<hi16,lo16>>, 64-bit = 4x16-bit limbs LE).  The constants are
derived from their mathematical definitions (fractional parts of roots of primes), not copied
from the Rust source.  Output is pasted into spec/*.tla; SpecKAT.tla guards the result."""
from math import isqrt
def primes(n):
    ps=[];c=2
    while len(ps)<n:
        if all(c%p for p in ps): ps.append(c)
        c+=1
    return ps
def icbrt(n):
    x=int(round(n**(1/3)))
    while x**3>n: x-=1
    while (x+1)**3<=n: x+=1
    return x
def frac_sqrt(p,bits): return isqrt(p<<(2*bits)) & ((1<<bits)-1)
def frac_cbrt(p,bits): return icbrt(p<<(3*bits)) & ((1<<bits)-1)
def w32(x): return "<<%d,%d>>"%(x>>16,x&0xffff)
def w64(x): return "<<%d,%d,%d,%d>>"%(x&0xffff,(x>>16)&0xffff,(x>>32)&0xffff,(x>>48)&0xffff)
def seq(xs,f,per=8):
    out=[]
    for i in range(0,len(xs),per): out.append(", ".join(f(x) for x in xs[i:i+per]))
    return "<< "+",\n   ".join(out)+" >>"
P=primes(80)
K256=[frac_cbrt(p,32) for p in P[:64]]
H256=[frac_sqrt(p,32) for p in P[:8]]
H224=[frac_sqrt(p,64)&0xffffffff for p in P[8:16]]
K512=[frac_cbrt(p,64) for p in P[:80]]
H512=[frac_sqrt(p,64) for p in P[:8]]
H384=[frac_sqrt(p,64) for p in P[8:16]]
# SHA-512/t IV generation (FIPS 180-4 5.3.6) with a small pure-python SHA-512
M=(1<<64)-1
def rotr(x,n): return ((x>>n)|(x<<(64-n)))&M
def sha512_compress(h,blk):
    w=[int.from_bytes(blk[8*i:8*i+8],'big') for i in range(16)]
    for i in range(16,80):
        s0=rotr(w[i-15],1)^rotr(w[i-15],8)^(w[i-15]>>7)
        s1=rotr(w[i-2],19)^rotr(w[i-2],61)^(w[i-2]>>6)
        w.append((w[i-16]+s0+w[i-7]+s1)&M)
    a,b,c,d,e,f,g,hh=h
    for i in range(80):
        S1=rotr(e,14)^rotr(e,18)^rotr(e,41); ch=(e&f)^((~e)&M&g)
        t1=(hh+S1+ch+K512[i]+w[i])&M
        S0=rotr(a,28)^rotr(a,34)^rotr(a,39); mj=(a&b)^(a&c)^(b&c)
        t2=(S0+mj)&M
        hh,g,f,e,d,c,b,a=g,f,e,(d+t1)&M,c,b,a,(t1+t2)&M
    return [(x+y)&M for x,y in zip(h,[a,b,c,d,e,f,g,hh])]
def sha512_iv(iv,msg):
    p=msg+b'\x80'+b'\0'*((239-len(msg))%128)+(len(msg)*8).to_bytes(16,'big')
    h=list(iv)
    for i in range(0,len(p),128): h=sha512_compress(h,p[i:i+128])
    return h
def sha512t_iv(t):
    iv=[x^0xa5a5a5a5a5a5a5a5 for x in H512]
    return sha512_iv(iv,b"SHA-512/%d"%t)
if __name__=="__main__":
    import hashlib
    assert b"".join(x.to_bytes(8,'big') for x in sha512_iv(H512,b"abc"))==hashlib.sha512(b"abc").digest()
    print("K256 ==",seq(K256,w32)); print("H256 ==",seq(H256,w32)); print("H224 ==",seq(H224,w32))
    print("K512 ==",seq(K512,w64,4)); print("H512 ==",seq(H512,w64,4)); print("H384 ==",seq(H384,w64,4))
    print("H512T224 ==",seq(sha512t_iv(224),w64,4)); print("H512T256 ==",seq(sha512t_iv(256),w64,4))
    # Keccak round constants via LFSR (FIPS 202 3.2.5)
    def rc_bit(t):
        if t%255==0: return 1
        R=1
        for _ in range(t%255):
            R<<=1
            if R&0x100: R^=0x171
        return R&1
    RC=[]
    for ir in range(24):
        v=0
        for j in range(7):
            if rc_bit(j+7*ir): v|=1<<((1<<j)-1)
        RC.append(v)
    print("KRC ==",seq(RC,w64,4))
    # Keccak rho offsets (lane x+5y)
    rot=[0]*25; x,y=1,0
    for t in range(24):
        rot[x+5*y]=((t+1)*(t+2)//2)%64
        x,y=y,(2*x+3*y)%5
    print("KROT == <<"+",".join(map(str,rot))+">>")
