#!/usr/bin/env python3-vt
"""Development aid: validate MANIFEST.json and evidence files against the published schemas."""
import json, jsonschema, glob, sys
jsonschema.validate(json.load(open('/verif/MANIFEST.json')), json.load(open('/root/.vp/MANIFEST.schema.json')))
s = json.load(open('/root/.vp/EVIDENCE.schema.json'))
for f in sorted(glob.glob('/verif/evidence/*.json')):
    jsonschema.validate(json.load(open(f)), s)
ps = json.load(open('/root/.vp/PROPERTIES.schema.json'))
ids = []
for l in open('/verif/properties.jsonl'):
    p = json.loads(l); jsonschema.validate(p, ps); ids.append(p['id'])
m = json.load(open('/verif/MANIFEST.json'))
claimed = [c['property_id'] for c in m['checks']]; na = [c['property_id'] for c in m.get('not_applicable', [])]
assert sorted(claimed + na) == sorted(ids), (claimed, na)
print('valid: %d claimed, %d not_applicable, %d evidence files' % (len(claimed), len(na), len(glob.glob('/verif/evidence/*.json'))))
