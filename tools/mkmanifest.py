#!/usr/bin/env python3
"""Regenerates /verif/MANIFEST.json from the table below (one place to keep claims, levels and techniques)."""
import json, subprocess, os
ROOT = os.path.dirname(os.path.dirname(os.path.abspath(__file__)))
NOTE = ("trusted: TLC + CommunityModules Java overrides; my transcription of the standards into TLA+ (guarded by the SpecKAT known-answer "
        "modules run at setup); the harness logging faithfully (guarded by ./check selftest, which corrupts traces and expects rejection); rustc/LLVM. "
        "Exhaustiveness is over structure (histories, length classes, parameter grids); byte contents are seeded samples plus crafted boundary values.")
CLAIMS = {
 "C01": ("every digest = the standard function: TLC evaluates FIPS 180-4 / FIPS 202 / RFC 7693 / RIPEMD-160, transcribed into TLA+, on the outputs recorded from the real crate for every variant x boundary length (thorough: every length 0..4B+1, full BLAKE2 (outlen,keylen) grid); the padding case analysis is model-checked exhaustively on the context machines", "5 C01",
         "TLC trace validation against executable TLA+ transcriptions of the hash standards + exhaustive TLC model checking of the padding machines"),
 "C02": ("all operation histories of the hash contexts: exhaustive TLC exploration of the context machines (MDCtx, SpongeCtx, Blake2Ctx) at block size 4 with the invariant 'compressed blocks = standard blocks of fed'; TLC-generated behaviours at the real block sizes replayed on the real contexts, every recorded digest validated by TLC", "5 C02",
         "TLC exhaustive model checking of context state machines + TLC-generated behaviours replayed on the implementation + TLC trace validation"),
 "C03": ("keystream exactness for every (variant, rounds, key length, start block incl. the 2^32 word boundary via seek / counter hook) and for both ChaCha engines: TLC recomputes every byte from ChaCha.tla / Salsa.tla; counter disciplines model-checked in StreamCtx", "5 C03",
         "TLC trace validation against TLA+ transcriptions of ChaCha/Salsa/HChaCha/HSalsa + TLC model checking of the counter disciplines"),
 "C04": ("all call sequences {process, process_mut, seek, clone, counter preset} and all DRG request sequences: exhaustive TLC exploration of StreamCtx (position-indexed output, involution, cache/counter consistency); TLC-generated behaviours at block size 64 replayed on the five ciphers and Drg<R>, validated byte for byte", "5 C04",
         "TLC exhaustive model checking of the stream-context machine + TLC-generated behaviours replayed + TLC trace validation"),
 "C05": ("Poly1305 tag for every key class (seeded, all-ones, r in 0..5, clamped-bit patterns) x message class (all lengths 0..80 in thorough, saturating / wrap-around specials, long) x chunking: TLC recomputes the RFC 8439 polynomial in BigNat arithmetic; input splits are TLC-generated from the MAC object machine, which is model-checked", "5 C05",
         "TLC trace validation against a TLA+ bignum transcription of Poly1305 + TLC-generated input splits + model checking of the MAC object machine"),
 "C06": ("AEAD construction: every partition of AAD/data across the incremental calls is explored exhaustively on AeadCtx (MAC input stream = RFC 8439 2.8); one-shot and incremental encryption and decryption of length-boundary cases are validated byte for byte by TLC against AEAD.tla, decryption being run on the ciphertexts the implementation itself produced", "5 C06",
         "TLC exhaustive model checking of the AEAD context machine + TLC trace validation against RFC 8439 in TLA+"),
 "C07": ("decryption verdict = (supplied tag = RFC tag of exactly those inputs) for valid tuples and every enumerated mutation (all 128 tag bits, structured tag forgeries, bits of ct/aad/nonce/key, truncation/extension, boundary moves, length swap), one-shot and incremental: the verdict is recomputed by TLC for each mutated tuple", "5 C07",
         "TLC trace validation of accept/reject verdicts against the recomputed RFC 8439 tag over an enumerated mutation space"),
 "C08": ("HMAC over all 18 legacy digests (and BLAKE2 output sizes) x boundary key lengths x message chunkings: TLC recomputes RFC 2104 with the digest's block size from HMAC.tla; Hmac object machine model-checked", "5 C08",
         "TLC trace validation against RFC 2104 in TLA+ over executable hash specifications"),
 "C09": ("all histories of {input, result, raw_result, reset, clone} on the MAC and legacy digest objects: exhaustive TLC exploration of MacObj (four kinds) with the contract invariants; TLC-generated behaviours replayed on Hmac, Poly1305, BLAKE2 MACs and all legacy digests; TraceMac admits only the functional MAC/digest of (construction key, bytes since reset), repeated results equal or loud, input after result loud", "5 C09",
         "TLC exhaustive model checking of the MAC/digest object machine + TLC-generated behaviours replayed + TLC trace validation of the result contract"),
 "C10": ("HKDF / PBKDF2 / scrypt outputs for boundary output lengths, iteration counts and a (log2 N, r, p) grid, and the refusal beyond 255*HashLen: TLC recomputes RFC 5869 / RFC 8018 / RFC 7914 from HMAC.tla and Scrypt.tla; the HMAC object reuse pattern inside the loops is the model-checked MacObj machine", "5 C10",
         "TLC trace validation against TLA+ transcriptions of RFC 5869 / 8018 / 7914"),
 "C11": ("Argon2d/i/id tags over (type, version, t, p, m incl. non-multiples of 4p and a segment longer than 128, tag lengths crossing 64, key/aad presence, both entry points): TLC recomputes RFC 9106 from Argon2.tla (H0, H', indexing position machine, G)", "5 C11",
         "TLC trace validation against a TLA+ transcription of RFC 9106"),
 "C12": ("X25519 on scalars {seeded, zero, all-ones, single-bit} x u {seeded, boundary values around 0, p, 2^255, 2^256, small-order u, top bit set}, fixed-base vs u=9, both sides of an exchange, and the RFC 7748 iteration chain link by link: TLC recomputes RFC 7748 on a 13-bit-limb bignum field (Fe25519.tla); the ladder's control skeleton is model-checked against the affine group law for every scalar and point of a toy Montgomery curve (Ladder.tla)", "5 C12",
         "TLC trace validation against RFC 7748 in TLA+ + exhaustive TLC model checking of the Montgomery ladder skeleton on a toy curve"),
 "C13": ("keypair layout, extended_to_public, signature, signature_extended (= the seed's signature), exchange over seeds incl. ones selected for the top-digit carry of the fixed-base recoding and messages straddling SHA-512 block boundaries or selected for the rare branch of the mod-L reduction: TLC recomputes RFC 8032 (SHA-512, mod L, Edwards double-and-add) from Ed25519.tla; the radix-16 recoding is model-checked for every 11-bit scalar", "5 C13",
         "TLC trace validation against RFC 8032 in TLA+ + TLC model checking of the scalar recoding"),
 "C14": ("verify verdicts on honest triples and an enumerated adversarial set (bit flips, S+kL, non-canonical S shapes under the neutral key, small-order / non-canonical / non-point A and R, zero key, random): the verdict decodable(A) /\\ A#0 /\\ S<L /\\ Encode(S*B - h*A) = R is computed by TLC for every triple; the sliding-window recoding is model-checked", "5 C14",
         "TLC trace validation of accept/reject verdicts against the RFC 8032 verification equation in TLA+"),
 "C15": ("field programs generated by TLC under the operand discipline (FeProg.tla) with the value recomputed after every step; wide reduction, canonical decoding, fixed-base and double-scalar multiplication, group law through every public representation, encode/decode incl. small-order and non-canonical encodings: all against Fe25519.tla / Ed25519.tla", "5 C15",
         "TLC-generated field-expression programs replayed on the implementation + TLC trace validation against bignum field/scalar/group specifications"),
 "C16": ("identical results whatever instruction-set features the crate is compiled for: the same scripts (SHA-256 x chaining/buffer states x 1..20 blocks x byte offsets 0..31, BLAKE2b/s keyed/unkeyed x lengths x context placements, five cipher variants at input/output offsets, native and portable ChaCha engine queries, and the workloads of the hash/MAC/cipher/KDF properties) executed by the baseline, +sse4.1, +avx and +avx2 builds; each build validated by TLC against the functional specification and all four validated in lock-step by the product specification TraceEquiv; the 8-way/4-way/scalar batching of digest_block is model-checked as a refinement of block-by-block compression (Dispatch.tla)", "5 C16",
         "TLC model checking of the dispatch/batching machine + TLC trace validation of every build against the TLA+ standards + TLC validation of the K-build product trace"),
 "C17": ("the crate builds with and without force-32bits under its own lints; the C12-C15 workloads (X25519, Ed25519 sign/verify incl. the adversarial verify set, TLC-generated field programs incl. equality of differently represented values, scalar decoding/reduction around L, group operations) executed by both back-ends; the 32-bit trace validated by TLC against RFC 7748 / RFC 8032 / GF(2^255-19) in TLA+ and both traces validated in lock-step by TraceEquiv", "5 C17",
         "TLC trace validation of the force-32bits build against the curve specifications + TLC validation of the two-backend product trace"),
 "C18": ("every helper of constant_time.rs, MacResult == and Tag ==: formulas transcribed at word width 8 and model-checked against their plain meanings on all 2^16 operand pairs (CT.tla); the real helpers evaluated on all byte pairs, the 64-bit boundary set squared + seeded pairs, arrays/slices of every length 0..40 equal or differing at every single position, limb arrays, choice algebra, option wrapper, swap/set for both choices; every result validated by TLC against the plain meaning (TraceCT)", "5 C18",
         "TLC exhaustive model checking of the branch-free formulas at width 8 + TLC trace validation of the real helpers against their plain meanings"),
 "C19": ("instruction-address traces of the release build, recorded by single-stepping the victim under ptrace between two markers (ct/pctrace.c), for X25519 (general / fixed-base), Ed25519 keygen and signing, Poly1305 (incl. keys that drive the accumulator above p), HMAC-SHA1/256/512, ChaCha20, Salsa20, MacResult == (5 tag lengths) and Tag == (equal + every first-mismatch position): per victim and public input the digest streams of all secrets are validated in lock-step by the product specification TraceEquiv; the 2-safety property itself is model-checked by self-composition on the crate's four constant-time idioms (NonInterference.tla) and on the ladder skeleton (Ladder.tla)", "5 C19",
         "TLC model checking of a self-composed non-interference model + TLC validation of the product of recorded program-counter traces (ptrace single-stepping)"),
 "C20": ("the argument-shape domain of every entry point enumerated by TLC from ApiDomain.tla (1 709 shapes: each length / round count / size / parameter one below and one above its legal values, zero, large; phase misuse; one-shot reuse), each executed in the dev, checked-release and release profiles: outcome class validated by TraceApi (extends ApiDomain), values by the functional trace specifications, the three profiles in lock-step by TraceEquiv; BLAKE2 and cipher counters preset next to 2^32 / 2^64 through the hooks with digests / keystream recomputed by TLC for those counter values; the workloads of C01-C15 in all three profiles in lock-step; counter step rules model-checked in a checked and an unchecked profile (Counters.tla)", "5 C20",
         "TLC-enumerated argument shapes replayed on three build profiles + TLC trace validation of outcome classes and values + TLC validation of the three-profile product trace + TLC model checking of the counter rules"),
}
NA = {}
def main():
    props = [json.loads(l) for l in open(os.path.join(ROOT, "properties.jsonl"))]
    commits = subprocess.run(["git", "-C", "/repo", "log", "--format=%H %s"], capture_output=True, text=True).stdout.splitlines()
    m = {"version": 1, "setup_cmd": "./check setup",
         "hooks": {"guard": "cargo feature verif-hooks",
                   "enable": "the harness crate /verif/harness depends on /repo with features=[\"verif-hooks\"]; cargo build --offline --manifest-path /verif/harness/Cargo.toml",
                   "baseline_off_cmd": "cd /repo && cargo test --workspace --no-fail-fast --offline",
                   "source_commits": [c.split()[0] for c in commits if " verif-hooks:" in c], "add_only": True},
         "engines": [
             {"name": "tlc", "path": "/opt/veriftools/tla/tla2tools.jar", "serves_properties": sorted(CLAIMS), "kind_free_text": "TLC model checker: exhaustive exploration of the object machines in /verif/spec, and evaluator of the functional specification during trace validation"},
             {"name": "apalache", "path": "/opt/veriftools/apalache", "serves_properties": ["C20"], "kind_free_text": "Apalache symbolic model checker: the counter step rules of spec/apalache/CountersA.tla at the real word widths (2^32, 2^64), one step from an arbitrary state"},
             {"name": "drive", "path": "/verif/harness", "serves_properties": sorted(CLAIMS), "kind_free_text": "Rust conformance harness built from /repo's working tree: replays TLC-generated behaviours on the real crate and records observation traces (contains no oracle)"}],
         "checks": [], "not_applicable": [], "notes": "see DESIGN.md; known_findings.json lists repaired (fixed:) and open findings"}
    for pid in sorted(CLAIMS):
        text, ref, tech = CLAIMS[pid]
        m["checks"].append({"property_id": pid, "quick_cmd": "./check %s --tier quick" % pid, "thorough_cmd": "./check %s --tier thorough" % pid,
                            "evidence_file": "/verif/evidence/%s.json" % pid, "replay_cmd_template": "./check %s --replay {path}" % pid, "engine": "tlc",
                            "level_claimed": {"category": "model_checking", "text": text, "design_ref": "DESIGN.md section " + ref},
                            "level_note": NOTE, "technique": tech})
    for p in props:
        if p["id"] not in CLAIMS:
            m["not_applicable"].append({"property_id": p["id"], "reason": NA.get(p["id"], "check not built yet (work in progress; planned per DESIGN.md section 5)")})
    json.dump(m, open(os.path.join(ROOT, "MANIFEST.json"), "w"), indent=1)
if __name__ == "__main__":
    main()
