#!/usr/bin/env python3
"""Seeded-change bookkeeping.
  mutant.py confirm <agent_out_dir> <mN> <name> <PID>   confirm a sub-agent's change in a fresh scratch worktree, store under seeded/<name>/
  mutant.py run <name> [PID ...]                        apply seeded/<name>/patch.diff to /repo, run the checks (quick), undo, record the outcome
"""
import json, os, shutil, subprocess, sys, time
ROOT = os.path.dirname(os.path.dirname(os.path.abspath(__file__)))
SEEDED = os.path.join(ROOT, "seeded")

def sh(cmd, cwd=None, timeout=7200, env=None):
    p = subprocess.run(cmd, shell=True, cwd=cwd, capture_output=True, text=True, timeout=timeout, env=env)
    return p.returncode, p.stdout + p.stderr

def confirm(outdir, m, name, pid):
    wt = "/tmp/scratch_" + name
    sh("git -C /repo worktree remove --force %s" % wt)
    rc, o = sh("git -C /repo worktree add -q --detach %s HEAD" % wt)
    assert rc == 0, o
    meta = json.load(open(os.path.join(outdir, "meta.json"))).get(m, {})
    allmeta = json.load(open(os.path.join(outdir, "meta.json")))
    kind = meta.get("demo_kind") or allmeta.get("demo_kind") or "rs"
    flags = meta.get("rustflags") or ""
    feats = meta.get("features") or ""
    rel = " --release" if meta.get("release") else ""
    env = dict(os.environ)
    tdir = ""
    if flags:
        env["RUSTFLAGS"] = flags
        tdir = " --target-dir target/flags"
    fa = (" --features " + feats) if feats else ""
    demo_src = os.path.join(outdir, "demo_%s.%s" % (m, kind))
    res = {}
    def demo():
        if kind == "sh":
            rc, o = sh("bash %s %s 2>&1 | tail -5" % (demo_src, wt), cwd=wt, env=env)
            rc2, _ = sh("bash %s %s >/dev/null 2>&1" % (demo_src, wt), cwd=wt, env=env)
            return rc2
        os.makedirs(os.path.join(wt, "tests"), exist_ok=True)
        shutil.copy(demo_src, os.path.join(wt, "tests", "demo.rs"))
        rc, o = sh("cargo test --offline --test demo%s%s%s 2>&1 | tail -8" % (fa, rel, tdir), cwd=wt, env=env)
        return 0 if ("test result: ok" in o and "FAILED" not in o) else 1
    try:
        res["demo_clean_pass"] = demo() == 0
        rc, o = sh("git apply %s" % os.path.join(outdir, m + ".diff"), cwd=wt); res["applies"] = rc == 0
        rc, o = sh("cargo test --offline --lib 2>&1 | tail -5", cwd=wt); res["unit_tests_pass"] = "63 passed; 0 failed" in o
        if flags:
            rc, o = sh("cargo test --offline --lib%s 2>&1 | tail -5" % tdir, cwd=wt, env=env); res["unit_tests_pass_with_rustflags"] = "63 passed; 0 failed" in o
        if feats == "force-32bits":
            rc, o = sh("cargo test --offline --lib --features force-32bits --target-dir target/f32 2>&1 | tail -5", cwd=wt); res["unit_tests_pass_f32"] = "56 passed; 0 failed" in o
        res["demo_mutant_fails"] = demo() == 1
        rc, o = sh("cargo build --offline --features verif-hooks 2>&1 | tail -3", cwd=wt); res["builds_with_hooks"] = rc == 0
    finally:
        sh("git -C /repo worktree remove --force %s" % wt)
        shutil.rmtree(wt, ignore_errors=True)
    ok = all(res.values())
    print(name, "CONFIRMED" if ok else "REJECTED", res)
    if ok:
        d = os.path.join(SEEDED, name)
        os.makedirs(d, exist_ok=True)
        shutil.copy(os.path.join(outdir, m + ".diff"), os.path.join(d, "patch.diff"))
        shutil.copy(demo_src, os.path.join(d, "demo." + kind))
        json.dump({"property": pid, "summary": meta.get("summary"), "site": meta.get("site"), "needs": meta.get("needs"), "why_tests_pass": meta.get("why_tests_pass"),
                   "rustflags": flags, "features": feats, "confirmation": res,
                   "confirmed_by": "tools/mutant.py confirm: fresh worktree of /repo HEAD; demo passes clean; patch applies; cargo test --offline --lib 63/63 with patch (also under the stated RUSTFLAGS / force-32bits where relevant); demo fails with patch; builds with --features verif-hooks",
                   "runs": []}, open(os.path.join(d, "meta.json"), "w"), indent=1)
    return ok

def run(name, pids, scratch=False):
    """default: the procedure of the brief (apply to /repo, run, undo).  scratch=True: apply to a scratch worktree and point the
    checks at it with VERIF_REPO, so that several changes can be tried while /repo is in use (development convenience)."""
    d = os.path.join(SEEDED, name)
    meta = json.load(open(os.path.join(d, "meta.json")))
    pids = pids or [meta["property"]]
    if scratch:
        repo = "/tmp/mut_" + name
        sh("git -C /repo worktree remove --force %s" % repo)
        rc, o = sh("git -C /repo worktree add -q --detach %s HEAD" % repo)
        assert rc == 0, o
    else:
        repo = "/repo"
        rc, o = sh("git -C /repo status --porcelain")
        assert o.strip() == "", "/repo not clean: " + o
    rc, o = sh("git -C %s apply %s" % (repo, os.path.join(d, "patch.diff")))
    assert rc == 0, o
    try:
        for pid in pids:
            t0 = time.time()
            # evidence and replay files of a run against a seeded change never land in the committed directories
            env = dict(os.environ, VERIF_EVID=os.path.join(ROOT, "work", "seeded_evidence"), VERIF_REPLAYS=os.path.join(ROOT, "work", "seeded_replays"))
            if scratch:
                env["VERIF_REPO"] = repo
                env["VERIF_WORK"] = os.path.join(ROOT, "work", "mut_" + name)
                env["VERIF_HARNESS"] = os.path.join(ROOT, "work", "mut_" + name, "harness")
                if not os.path.exists(env["VERIF_HARNESS"]):
                    shutil.copytree(os.path.join(ROOT, "harness"), env["VERIF_HARNESS"], symlinks=True, ignore=shutil.ignore_patterns("target", "repo-link"))
            rc, o = sh("./check %s --tier quick" % pid, cwd=ROOT, env=env)
            viol = [l for l in o.splitlines() if l.startswith("VIOLATION")]
            out = {"check": pid, "tier": "quick", "seed": int(os.environ.get("VERIF_SEED", "0")), "exit": rc, "violation_lines": len(viol), "wall_s": round(time.time() - t0), "detected": rc == 1 and bool(viol),
                   "repo_head": sh("git -C /repo log --format=%h -1")[1].strip(), "verif_head": sh("git -C %s log --format=%%h -1" % ROOT)[1].strip()}
            if rc == 2:
                out["tool_error"] = o[-600:]
            meta = json.load(open(os.path.join(d, "meta.json")))          # re-read: several runs may be recording at the same time
            meta["runs"] = [r for r in meta["runs"] if not (r["check"] == pid and r.get("seed", 0) == out["seed"])] + [out]
            json.dump(meta, open(os.path.join(d, "meta.json"), "w"), indent=1)
            print(name, pid, "DETECTED" if out["detected"] else ("TOOL-ERROR" if rc == 2 else "MISSED"), "rc=%d %ds" % (rc, out["wall_s"]))
    finally:
        if scratch:
            sh("git -C /repo worktree remove --force %s" % repo)
            shutil.rmtree(repo, ignore_errors=True)
            shutil.rmtree(os.path.join(ROOT, "work", "mut_" + name), ignore_errors=True)
        else:
            sh("git -C /repo checkout -- .")

if __name__ == "__main__":
    if sys.argv[1] == "confirm":
        sys.exit(0 if confirm(*sys.argv[2:6]) else 1)
    elif sys.argv[1] == "run":
        args = [a for a in sys.argv[2:] if a != "--scratch"]
        run(args[0], args[1:], scratch="--scratch" in sys.argv)
