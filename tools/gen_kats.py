#!/usr/bin/env python3
"""Generates the known-answer modules that guard the functional layer of the specification:
   spec/SpecKAT_Sym.tla   ChaCha / XChaCha / Salsa / XSalsa / Poly1305 / AEAD
   spec/SpecKAT_Kdf.tla   HMAC / HKDF / PBKDF2 / scrypt / Argon2
   spec/SpecKAT_Curve.tla X25519 / Ed25519 / field and scalar arithmetic
Expected values: published vectors (RFC 8439, RFC 7748, RFC 8032, RFC 5869, RFC 6070, RFC 7914, RFC 9106, the
eSTREAM / NaCl / XSalsa20 papers) typed in below, plus values computed here by independent straightforward
re-implementations on Python big integers / hashlib, each of which is first asserted against the published vectors.
Nothing in this file looks at cryptoxide."""
import hashlib
import hmac
import os
import struct

ROOT = os.path.dirname(os.path.dirname(os.path.abspath(__file__)))
H = bytes.fromhex


def tl(b):
    return "<<" + ",".join(str(x) for x in b) + ">>"


# ------------------------------------------------------------------ reference implementations (Python)
def rotl(v, n):
    return ((v << n) & 0xffffffff) | (v >> (32 - n))


def chacha_block(key, counter_words, rounds=20):
    c = b"expand 32-byte k" if len(key) == 32 else b"expand 16-byte k"
    k = key if len(key) == 32 else key + key
    st = list(struct.unpack("<4I", c)) + list(struct.unpack("<8I", k)) + list(counter_words)
    x = list(st)

    def qr(a, b, c_, d):
        x[a] = (x[a] + x[b]) & 0xffffffff; x[d] = rotl(x[d] ^ x[a], 16)
        x[c_] = (x[c_] + x[d]) & 0xffffffff; x[b] = rotl(x[b] ^ x[c_], 12)
        x[a] = (x[a] + x[b]) & 0xffffffff; x[d] = rotl(x[d] ^ x[a], 8)
        x[c_] = (x[c_] + x[d]) & 0xffffffff; x[b] = rotl(x[b] ^ x[c_], 7)
    for _ in range(rounds // 2):
        qr(0, 4, 8, 12); qr(1, 5, 9, 13); qr(2, 6, 10, 14); qr(3, 7, 11, 15)
        qr(0, 5, 10, 15); qr(1, 6, 11, 12); qr(2, 7, 8, 13); qr(3, 4, 9, 14)
    return x, st


def chacha_ietf(key, nonce12, counter, n, rounds=20):
    out = b""
    while len(out) < n:
        x, st = chacha_block(key, [counter & 0xffffffff] + list(struct.unpack("<3I", nonce12)), rounds)
        out += struct.pack("<16I", *[(a + b) & 0xffffffff for a, b in zip(x, st)])
        counter += 1
    return out[:n]


def chacha_orig(key, nonce8, counter, n, rounds=20):
    out = b""
    while len(out) < n:
        x, st = chacha_block(key, [counter & 0xffffffff, (counter >> 32) & 0xffffffff] + list(struct.unpack("<2I", nonce8)), rounds)
        out += struct.pack("<16I", *[(a + b) & 0xffffffff for a, b in zip(x, st)])
        counter += 1
    return out[:n]


def hchacha(key, nonce16, rounds=20):
    x, st = chacha_block(key, struct.unpack("<4I", nonce16), rounds)
    return struct.pack("<8I", *(x[0:4] + x[12:16]))


def xchacha(key, nonce24, counter, n, rounds=20):
    return chacha_ietf(hchacha(key, nonce24[:16], rounds), b"\0\0\0\0" + nonce24[16:], counter, n, rounds)


def salsa_core(st, rounds=20):
    x = list(st)

    def qr(a, b, c, d):
        x[b] ^= rotl((x[a] + x[d]) & 0xffffffff, 7)
        x[c] ^= rotl((x[b] + x[a]) & 0xffffffff, 9)
        x[d] ^= rotl((x[c] + x[b]) & 0xffffffff, 13)
        x[a] ^= rotl((x[d] + x[c]) & 0xffffffff, 18)
    for _ in range(rounds // 2):
        qr(0, 4, 8, 12); qr(5, 9, 13, 1); qr(10, 14, 2, 6); qr(15, 3, 7, 11)
        qr(0, 1, 2, 3); qr(5, 6, 7, 4); qr(10, 11, 8, 9); qr(15, 12, 13, 14)
    return x


def salsa_state(key, w6to9):
    c = struct.unpack("<4I", b"expand 32-byte k" if len(key) == 32 else b"expand 16-byte k")
    k = struct.unpack("<8I", key if len(key) == 32 else key + key)
    return [c[0]] + list(k[0:4]) + [c[1]] + list(w6to9) + [c[2]] + list(k[4:8]) + [c[3]]


def salsa20(key, nonce8, counter, n, rounds=20):
    out = b""
    while len(out) < n:
        st = salsa_state(key, list(struct.unpack("<2I", nonce8)) + [counter & 0xffffffff, (counter >> 32) & 0xffffffff])
        x = salsa_core(st, rounds)
        out += struct.pack("<16I", *[(a + b) & 0xffffffff for a, b in zip(x, st)])
        counter += 1
    return out[:n]


def hsalsa(key, nonce16, rounds=20):
    x = salsa_core(salsa_state(key, struct.unpack("<4I", nonce16)), rounds)
    return struct.pack("<8I", x[0], x[5], x[10], x[15], x[6], x[7], x[8], x[9])


def xsalsa20(key, nonce24, counter, n, rounds=20):
    return salsa20(hsalsa(key, nonce24[:16], rounds), nonce24[16:], counter, n, rounds)


def poly1305(key, msg):
    r = int.from_bytes(key[:16], "little") & 0x0ffffffc0ffffffc0ffffffc0fffffff
    s = int.from_bytes(key[16:], "little")
    a = 0
    p = (1 << 130) - 5
    for i in range(0, len(msg), 16):
        blk = msg[i:i + 16]
        a = ((a + int.from_bytes(blk + b"\x01", "little")) * r) % p
    return ((a + s) & ((1 << 128) - 1)).to_bytes(16, "little")


def aead_encrypt(key, nonce, aad, pt, rounds=20):
    otk = chacha_ietf(key, nonce, 0, 32, rounds)
    ct = bytes(a ^ b for a, b in zip(pt, chacha_ietf(key, nonce, 1, len(pt), rounds)))
    pad = lambda x: b"\0" * ((16 - len(x) % 16) % 16)
    tag = poly1305(otk, aad + pad(aad) + ct + pad(ct) + struct.pack("<QQ", len(aad), len(ct)))
    return ct, tag


P = 2 ** 255 - 19
A24 = 121665


def x25519(k, u):
    k = bytearray(k); k[0] &= 248; k[31] &= 127; k[31] |= 64
    kn = int.from_bytes(k, "little")
    x1 = int.from_bytes(u, "little") & ((1 << 255) - 1)
    x2, z2, x3, z3, swap = 1, 0, x1, 1, 0
    for t in reversed(range(255)):
        kt = (kn >> t) & 1
        swap ^= kt
        if swap:
            x2, x3, z2, z3 = x3, x2, z3, z2
        swap = kt
        A = (x2 + z2) % P; AA = A * A % P; B = (x2 - z2) % P; BB = B * B % P; E = (AA - BB) % P
        C = (x3 + z3) % P; D = (x3 - z3) % P; DA = D * A % P; CB = C * B % P
        x3 = (DA + CB) ** 2 % P; z3 = x1 * (DA - CB) ** 2 % P
        x2 = AA * BB % P; z2 = E * (AA + A24 * E) % P
    if swap:
        x2, x3, z2, z3 = x3, x2, z3, z2
    return (x2 * pow(z2, P - 2, P) % P).to_bytes(32, "little")


L = 2 ** 252 + 27742317777372353535851937790883648493
D = -121665 * pow(121666, P - 2, P) % P
I = pow(2, (P - 1) // 4, P)


def xrecover(y):
    xx = (y * y - 1) * pow(D * y * y + 1, P - 2, P)
    x = pow(xx, (P + 3) // 8, P)
    if (x * x - xx) % P != 0:
        x = (x * I) % P
    if (x * x - xx) % P != 0:
        return None
    if x % 2 != 0:
        x = P - x
    return x


BY = 4 * pow(5, P - 2, P) % P
BX = xrecover(BY)
B = (BX, BY)


def edadd(p, q):
    x1, y1 = p; x2, y2 = q
    x3 = (x1 * y2 + x2 * y1) * pow(1 + D * x1 * x2 * y1 * y2, P - 2, P)
    y3 = (y1 * y2 + x1 * x2) * pow(1 - D * x1 * x2 * y1 * y2, P - 2, P)
    return (x3 % P, y3 % P)


def smul(p, e):
    q = (0, 1)
    while e:
        if e & 1:
            q = edadd(q, p)
        p = edadd(p, p)
        e >>= 1
    return q


def enc(p):
    return (p[1] | ((p[0] & 1) << 255)).to_bytes(32, "little")


def ed_public(seed):
    h = hashlib.sha512(seed).digest()
    a = int.from_bytes(h[:32], "little") & ((1 << 254) - 8) | (1 << 254)
    return enc(smul(B, a)), a, h[32:]


def ed_sign(seed, msg):
    pk, a, prefix = ed_public(seed)
    r = int.from_bytes(hashlib.sha512(prefix + msg).digest(), "little") % L
    R = enc(smul(B, r))
    h = int.from_bytes(hashlib.sha512(R + pk + msg).digest(), "little") % L
    return R + ((r + h * a) % L).to_bytes(32, "little")


def hkdf(hname, salt, ikm, info, n):
    prk = hmac.new(salt, ikm, hname).digest()
    t, okm, i = b"", b"", 1
    while len(okm) < n:
        t = hmac.new(prk, t + info + bytes([i]), hname).digest()
        okm += t
        i += 1
    return prk, okm[:n]


# ------------------------------------------------------------------ published vectors: first guard the references with them
SUNSCREEN = b"Ladies and Gentlemen of the class of '99: If I could offer you only one tip for the future, sunscreen would be it."
K8439 = bytes(range(32))
assert bytes(a ^ b for a, b in zip(SUNSCREEN, chacha_ietf(K8439, H("000000000000004a00000000"), 1, len(SUNSCREEN)))).hex().startswith(
    "6e2e359a2568f98041ba0728dd0d6981e97e7aec1d4360c20a27afccfd9fae0bf91b65c5524733ab8f593dabcd62b357")           # RFC 8439 2.4.2
assert chacha_ietf(K8439, H("000000090000004a00000000"), 1, 64).hex().startswith("10f1e7e4d13b5915500fdd1fa32071c4")              # RFC 8439 2.3.2
assert poly1305(H("85d6be7857556d337f4452fe42d506a80103808afb0db2fd4abff6af4149f51b"), b"Cryptographic Forum Research Group").hex() == "a8061dc1305136c6c22b8baf0c0127a9"  # RFC 8439 2.5.2
_ct, _tag = aead_encrypt(H("808182838485868788898a8b8c8d8e8f909192939495969798999a9b9c9d9e9f"), H("070000004041424344454647"), H("50515253c0c1c2c3c4c5c6c7"), SUNSCREEN)
assert _tag.hex() == "1ae10b594f09e26a7e902ecbd0600691" and _ct.hex().startswith("d31a8d34648e60db7b86afbc53ef7ec2")                  # RFC 8439 2.8.2
assert hchacha(H("000102030405060708090a0b0c0d0e0f101112131415161718191a1b1c1d1e1f"), H("000000090000004a0000000031415927")).hex() == \
    "82413b4227b27bfed30e42508a877d73a0f9e4d58a74a853c12ec41326d3ecdc"                                                               # draft-irtf-cfrg-xchacha 2.2.1
assert x25519(H("a546e36bf0527c9d3b16154b82465edd62144c0ac1fc5a18506a2244ba449ac4"), H("e6db6867583030db3594c1a424b15f7c726624ec26b3353b10a903a6d0ab1c4c")).hex() == \
    "c3da55379de9c6908e94ea4df28d084f32eccf03491c71f754b4075577a28552"                                                               # RFC 7748 5.2
assert x25519(H("4b66e9d4d1b4673c5ad22691957d6af5c11b6421e0ea01d42ca4169e7918ba0d"), H("e5210f12786811d3f4b7959d0538ae2c31dbe7106fc03c3efc4cd549c715a493")).hex() == \
    "95cbde9476e8907d7aade45cb4b873f88b595a68799fa152e6f8f7647aac7957"
SEED1 = H("9d61b19deffd5a60ba844af492ec2cc44449c5697b326919703bac031cae7f60")
assert ed_public(SEED1)[0].hex() == "d75a980182b10ab7d54bfed3c964073a0ee172f3daa62325af021a68f707511a"                            # RFC 8032 7.1 TEST 1
assert ed_sign(SEED1, b"").hex() == ("e5564300c360ac729086e2cc806e828a84877f1eb8e5d974d873e065224901555fb8821590a33bacc61e39701cf9b46bd25bf5f0595bbe24655141438e7a100b")
SEED2 = H("4ccd089b28ff96da9db6c346ec114e0f5b8a319f35aba624da8cf6ed4fb8a6fb")
assert ed_public(SEED2)[0].hex() == "3d4017c3e843895a92b70aa74d1b7ebc9c982ccf2ec4968cc0cd55f12af4660c"                            # TEST 2
assert ed_sign(SEED2, H("72")).hex() == ("92a009a9f0d4cab8720e820b5f642540a2b27b5416503f8fb3762223ebdb69da085ac1e43e15996e458f3613d0f11d8c387b2eaeb4302aeeb00d291612bb0c00")
assert hkdf("sha256", H("000102030405060708090a0b0c"), H("0b" * 22), H("f0f1f2f3f4f5f6f7f8f9"), 42)[1].hex() == \
    "3cb25f25faacd57a90434f64d0362f2a2d2d0a90cf1a5a4c5db02d56ecc4c5bf34007208d5b887185865"                                           # RFC 5869 A.1
assert hashlib.pbkdf2_hmac("sha1", b"password", b"salt", 2, 20).hex() == "ea6c014dc72d6f8ccd1ed92ace1d41f0d8de8957"                  # RFC 6070
assert salsa20(H("80" + "00" * 31), H("00" * 8), 0, 64).hex().startswith("e3be8fdd8beca2e3ea8ef9475b29a6e7")                       # eSTREAM set 1 vector 0 (256 bit)
assert salsa20(H("80" + "00" * 15), H("00" * 8), 0, 64).hex().startswith("4dfa5e481da23ea09a31022050859936")                       # eSTREAM set 1 vector 0 (128 bit)


def seeded(tag, n):
    out = b""
    i = 0
    while len(out) < n:
        out += hashlib.sha256(("kat/%s/%d" % (tag, i)).encode()).digest()
        i += 1
    return out[:n]


def emit(name, extends, doc, kats):
    body = "------------------------------ MODULE %s -----------------------------\n(* %s\n   Generated by tools/gen_kats.py; evaluated by `./check setup`. *)\n" % (name, doc)
    # one CASE arm per known answer (a tuple of all of them would be evaluated completely at every step)
    body += "EXTENDS %s, Json\nVARIABLE n\nNKats == %d\nKat(i) ==\n  CASE " % (extends, len(kats)) + "\n    [] ".join("i = %d -> %s" % (i + 1, e) for i, e in enumerate(kats)) + "\n"
    body += "Init == n = 0\nNext == n < NKats /\\ n' = n + 1\nInv == n >= 1 => IF Kat(n) THEN PrintT(ToJson(<<\"KAT\", n, \"ok\">>)) ELSE PrintT(ToJson(<<\"KAT\", n, \"FAIL\">>))\n"
    body += "=============================================================================\n"
    open(os.path.join(ROOT, "spec", name + ".tla"), "w").write(body)
    open(os.path.join(ROOT, "spec", name + ".cfg"), "w").write("INIT Init\nNEXT Next\nINVARIANT Inv\nCHECK_DEADLOCK FALSE\n")
    print(name, len(kats), "KATs")


def ctr(n):
    return tl([(n >> (16 * i)) & 0xffff for i in range(4)])


def main():
    # ---------------- symmetric
    k = []
    ks = lambda variant, rounds, key, nonce, c, n, exp: 'KeyStream("%s", %d, %s, %s, %s, 0, %d) = %s' % (variant, rounds, tl(key), tl(nonce), ctr(c), n, tl(exp))
    sks = lambda variant, rounds, key, nonce, c, n, exp: 'SKeyStream("%s", %d, %s, %s, %s, 0, %d) = %s' % (variant, rounds, tl(key), tl(nonce), ctr(c), n, tl(exp))
    k.append(ks("ietf", 20, K8439, H("000000090000004a00000000"), 1, 64, chacha_ietf(K8439, H("000000090000004a00000000"), 1, 64)))
    k.append(ks("ietf", 20, K8439, H("000000000000004a00000000"), 1, 114, chacha_ietf(K8439, H("000000000000004a00000000"), 1, 114)))
    for rounds in (8, 12, 20):
        for kl in (16, 32):
            key, n12, n8, n24 = seeded("k%d%d" % (rounds, kl), kl), seeded("n12", 12), seeded("n8", 8), seeded("n24", 24)
            k.append(ks("ietf", rounds, key, n12, 0xfffffffe, 192, chacha_ietf(key, n12, 0xfffffffe, 192, rounds)))          # wraps to block 0
            k.append(ks("original", rounds, key, n8, 0xffffffff, 130, chacha_orig(key, n8, 0xffffffff, 130, rounds)))      # carries into the high word
            k.append(sks("salsa", rounds, key, n8, 0xffffffff, 130, salsa20(key, n8, 0xffffffff, 130, rounds)))
            if kl == 32:
                k.append(ks("xchacha", rounds, key, n24, 1, 100, xchacha(key, n24, 1, 100, rounds)))
                k.append(sks("xsalsa", rounds, key, n24, 0, 100, xsalsa20(key, n24, 0, 100, rounds)))
    k.append('HChaCha(%s, %s, 20) = %s' % (tl(K8439), tl(H("000000090000004a0000000031415927")), tl(H("82413b4227b27bfed30e42508a877d73a0f9e4d58a74a853c12ec41326d3ecdc"))))
    k.append(sks("salsa", 20, H("80" + "00" * 31), H("00" * 8), 0, 64, salsa20(H("80" + "00" * 31), H("00" * 8), 0, 64)))
    pm = lambda key, msg: 'Poly1305Mac(%s, %s) = %s' % (tl(key), tl(msg), tl(poly1305(key, msg)))
    k.append(pm(H("85d6be7857556d337f4452fe42d506a80103808afb0db2fd4abff6af4149f51b"), b"Cryptographic Forum Research Group"))
    k.append(pm(H("02" + "00" * 31), H("ff" * 16)))                                               # donna wrap vector: tag 03 00..
    k.append(pm(H("01" + "00" * 31), H("ff" * 32)))                                               # h >= p before the final reduction
    k.append(pm(b"this is 32-byte key for Poly1305", b"\0" * 32))
    k.append(pm(b"this is 32-byte key for Poly1305", b"Hello world!"))
    for n in (0, 1, 15, 16, 17, 33, 64):
        k.append(pm(seeded("pk%d" % n, 32), seeded("pm%d" % n, n)))
    k.append(pm(H("ff" * 32), H("ff" * 48)))
    key, nonce, aad = H("808182838485868788898a8b8c8d8e8f909192939495969798999a9b9c9d9e9f"), H("070000004041424344454647"), H("50515253c0c1c2c3c4c5c6c7")
    ct, tag = aead_encrypt(key, nonce, aad, SUNSCREEN)
    k.append('AeadEncrypt(20, %s, %s, %s, %s) = <<%s, %s>>' % (tl(key), tl(nonce), tl(aad), tl(SUNSCREEN), tl(ct), tl(tag)))
    for (kl, al, pl, rounds) in ((16, 0, 0, 20), (32, 1, 17, 8), (16, 16, 64, 12), (32, 13, 65, 20)):
        key, aad, pt = seeded("ak%d" % kl, kl), seeded("aa", al), seeded("ap", pl)
        ct, tag = aead_encrypt(key, nonce, aad, pt, rounds)
        k.append('AeadEncrypt(%d, %s, %s, %s, %s) = <<%s, %s>>' % (rounds, tl(key), tl(nonce), tl(aad), tl(pt), tl(ct), tl(tag)))
        k.append('AeadDecrypt(%d, %s, %s, %s, %s, %s) = <<%s, TRUE>>' % (rounds, tl(key), tl(nonce), tl(aad), tl(ct), tl(tag), tl(pt)))
    # the length field of a Merkle-Damgard padding with a preset byte count (Words.LenFieldBE / LE): ((off + n) * 8) mod 2^(8 width)
    for off, n, w in ((0, 3, 8), ((1 << 29) - 1, 1, 8), (1 << 29, 0, 8), ((1 << 32) - 64, 70, 8), ((1 << 61) - 1, 0, 8), ((1 << 61) - 1, 0, 16), ((1 << 64) - 1, 2, 16),
                      ((1 << 125) - 1, 1, 16), (0x0123456789abcdef0123456789abcd, 300, 16)):
        v = ((off + n) * 8) % (1 << (8 * w))
        k.append('LenFieldBE(%s, %d, %d) = %s' % (tl(off.to_bytes(16, "little")), n, w, tl(v.to_bytes(w, "big"))))
        k.append('LenFieldLE(%s, %d, %d) = %s' % (tl(off.to_bytes(16, "little")), n, w, tl(v.to_bytes(w, "little"))))
    emit("SpecKAT_Sym", "AEAD", "Known answers for ChaCha.tla, Salsa.tla, Poly1305.tla, AEAD.tla: RFC 8439 2.3.2 / 2.4.2 / 2.5.2 / 2.8.2, draft-irtf-cfrg-xchacha 2.2.1, "
         "eSTREAM Salsa20 set 1 vector 0, poly1305-donna and TLS-draft vectors, and values computed by an independent Python re-implementation (itself asserted against those vectors), "
         "including the 2^32 counter boundary (wrap for the IETF layout, carry for the 64-bit counters), 8/12/20 rounds and 16/32-byte keys.", k)
    # ---------------- KDFs
    k = []
    hd = lambda alg: '[alg |-> "%s", outlen |-> 0]' % alg
    for alg in ("sha1", "sha256", "sha512", "sha3_256", "sha224", "sha384"):
        bs = {"sha1": 64, "sha256": 64, "sha224": 64, "sha512": 128, "sha384": 128, "sha3_256": 136}[alg]
        for kl in (0, 20, bs, bs + 1):
            key, msg = seeded("hk%s%d" % (alg, kl), kl), seeded("hm" + alg, 50)
            k.append('Hmac(%s, %s, %s) = %s' % (hd(alg), tl(key), tl(msg), tl(hmac.new(key, msg, alg).digest())))
    k.append('Hmac(%s, %s, %s) = %s' % (hd("sha256"), tl(H("0b" * 20)), tl(b"Hi There"), tl(H("b0344c61d8db38535ca8afceaf0bf12b881dc200c9833da726e9376c2e32cff7"))))   # RFC 4231 case 1
    k.append('Hmac(%s, %s, %s) = %s' % (hd("sha1"), tl(H("0b" * 20)), tl(b"Hi There"), tl(H("b617318655057264e28bc0b6fb378c8ef146be00"))))                            # RFC 2202 case 1
    for alg, salt, ikm, info, n in (("sha256", H("000102030405060708090a0b0c"), H("0b" * 22), H("f0f1f2f3f4f5f6f7f8f9"), 42), ("sha1", b"", H("0b" * 22), b"", 42),
                                    ("sha512", seeded("s", 7), seeded("i", 40), seeded("f", 3), 129), ("sha256", seeded("s", 7), seeded("i", 40), b"", 64)):
        prk, okm = hkdf(alg, salt if salt else b"\0" * hashlib.new(alg).digest_size, ikm, info, n)
        k.append('HkdfExtract(%s, %s, %s) = %s' % (hd(alg), tl(salt if salt else b"\0" * hashlib.new(alg).digest_size), tl(ikm), tl(prk)))
        k.append('HkdfExpand(%s, %s, %s, %d) = %s' % (hd(alg), tl(prk), tl(info), n, tl(okm)))
    for alg, pw, salt, c, n in (("sha1", b"password", b"salt", 1, 20), ("sha1", b"password", b"salt", 2, 20), ("sha256", b"passwd", b"salt", 1, 64),
                                ("sha512", seeded("pw", 9), seeded("ps", 5), 3, 130), ("sha256", seeded("pw", 70), seeded("ps", 40), 5, 33)):
        k.append('Pbkdf2(%s, %s, %s, %d, %d) = %s' % (hd(alg), tl(pw), tl(salt), c, n, tl(hashlib.pbkdf2_hmac(alg, pw, salt, c, n))))
    for pw, salt, logn, r, p, n in ((b"", b"", 4, 1, 1, 64), (b"pw", b"NaCl", 3, 2, 2, 40), (seeded("spw", 10), seeded("ss", 6), 2, 3, 1, 33)):
        k.append('ScryptKdf(%s, %s, %d, %d, %d, %d) = %s' % (tl(pw), tl(salt), logn, r, p, n, tl(hashlib.scrypt(pw, salt=salt, n=1 << logn, r=r, p=p, dklen=n))))
    assert hashlib.scrypt(b"", salt=b"", n=16, r=1, p=1, dklen=64).hex().startswith("77d6576238657b203b19ca42c18a0497")          # RFC 7914 section 12
    # Argon2: RFC 9106 section 5 (password 32 x 01, salt 16 x 02, secret 8 x 03, associated data 12 x 04, t = 3, m = 32, p = 4, tag 32)
    a2 = {0: "512b391b6f1162975371d30919734294f868e3be3984f3c1a13a4db9fabe4acb", 1: "c814d9d1dc7f37aa13f0d77f2494bda1c8de6b016dd388d29952a4c4672b6ce8",
          2: "0d640df58d78766c08c037a34a8b53c9d01ef0452d75b65eb52520e96b01e659"}
    for y, tag in a2.items():
        k.append('Argon2(%d, 19, 3, 32, 4, %s, %s, %s, %s, 32) = %s' % (y, tl(b"\x01" * 32), tl(b"\x02" * 16), tl(b"\x03" * 8), tl(b"\x04" * 12), tl(H(tag))))
    emit("SpecKAT_Kdf", "Scrypt, Argon2", "Known answers for HMAC.tla (HMAC, HKDF, PBKDF2), Scrypt.tla and Argon2.tla: RFC 4231 / 2202 / 5869 / 6070 / 7914 / 9106 section 5 vectors, and values "
         "computed by Python's hmac / hashlib.pbkdf2_hmac / hashlib.scrypt (OpenSSL) for key lengths around the block size, several digests and multi-block outputs.", k)
    # ---------------- curve
    k = []
    k.append('X25519(%s, %s) = %s' % (tl(H("a546e36bf0527c9d3b16154b82465edd62144c0ac1fc5a18506a2244ba449ac4")), tl(H("e6db6867583030db3594c1a424b15f7c726624ec26b3353b10a903a6d0ab1c4c")),
                                      tl(H("c3da55379de9c6908e94ea4df28d084f32eccf03491c71f754b4075577a28552"))))
    k.append('X25519(%s, %s) = %s' % (tl(H("4b66e9d4d1b4673c5ad22691957d6af5c11b6421e0ea01d42ca4169e7918ba0d")), tl(H("e5210f12786811d3f4b7959d0538ae2c31dbe7106fc03c3efc4cd549c715a493")),
                                      tl(H("95cbde9476e8907d7aade45cb4b873f88b595a68799fa152e6f8f7647aac7957"))))
    nine = bytes([9] + [0] * 31)
    k.append('X25519(%s, %s) = %s' % (tl(nine), tl(nine), tl(H("422c8e7a6227d7bca1350b3e2bb7279f7897b87bb6854b783c60e80311ae3079"))))        # RFC 7748 5.2, one iteration
    assert x25519(nine, nine).hex() == "422c8e7a6227d7bca1350b3e2bb7279f7897b87bb6854b783c60e80311ae3079"
    for i, u in enumerate([bytes(32), bytes([1] + [0] * 31), (P - 1).to_bytes(32, "little"), P.to_bytes(32, "little"), (P + 1).to_bytes(32, "little"), b"\xff" * 32, seeded("u", 32)]):
        sk = seeded("xs%d" % i, 32)
        k.append('X25519(%s, %s) = %s' % (tl(sk), tl(u), tl(x25519(sk, u))))
    for seed, msg in ((SEED1, b""), (SEED2, H("72")), (H("c5aa8df43f9f837bedb7442f31dcb7b166d38535076f094b85ce3a2e0b4458f7"), H("af82")), (seeded("es", 32), seeded("em", 111)),
                      (seeded("es2", 32), seeded("em2", 47))):
        pk = ed_public(seed)[0]
        sig = ed_sign(seed, msg)
        k.append('PublicKey(%s) = %s' % (tl(seed), tl(pk)))
        k.append('Sign(%s, %s) = %s' % (tl(seed), tl(msg), tl(sig)))
        k.append('Verify(%s, %s, %s)' % (tl(msg), tl(pk), tl(sig)))
        bad = bytearray(sig); bad[5] ^= 4
        k.append('~Verify(%s, %s, %s)' % (tl(msg), tl(pk), tl(bytes(bad))))
        sl = sig[:32] + ((int.from_bytes(sig[32:], "little") + L).to_bytes(32, "little"))
        k.append('~Verify(%s, %s, %s)' % (tl(msg), tl(pk), tl(sl)))                      # S + L: same equation, non-canonical S
    assert ed_sign(H("c5aa8df43f9f837bedb7442f31dcb7b166d38535076f094b85ce3a2e0b4458f7"), H("af82")).hex().startswith("6291d657deec24024827e69c3abe01a3")   # RFC 8032 TEST 3
    for i in range(4):
        a, b = int.from_bytes(seeded("fa%d" % i, 32), "little"), int.from_bytes(seeded("fb%d" % i, 32), "little")
        ab, bb = (a % (1 << 256)).to_bytes(32, "little"), (b % (1 << 256)).to_bytes(32, "little")
        am, bm = (a & ((1 << 255) - 1)) % P, (b & ((1 << 255) - 1)) % P
        k.append('ToBytes(FMul(FromBytes(%s), FromBytes(%s))) = %s' % (tl(ab), tl(bb), tl((am * bm % P).to_bytes(32, "little"))))
        k.append('ToBytes(FSub(FromBytes(%s), FromBytes(%s))) = %s' % (tl(ab), tl(bb), tl(((am - bm) % P).to_bytes(32, "little"))))
        k.append('ToBytes(FInv(FromBytes(%s))) = %s' % (tl(ab), tl(pow(am, P - 2, P).to_bytes(32, "little"))))
        w = seeded("w%d" % i, 64)
        k.append('ReduceWide(%s) = %s' % (tl(w), tl((int.from_bytes(w, "little") % L).to_bytes(32, "little"))))
    k.append('ReduceWide(%s) = %s' % (tl(b"\xff" * 64), tl(((2 ** 512 - 1) % L).to_bytes(32, "little"))))
    emit("SpecKAT_Curve", "Ed25519", "Known answers for Fe25519.tla, Ed25519.tla (and X25519): RFC 7748 section 5.2, RFC 8032 section 7.1 TEST 1-3, non-canonical and small u-coordinates, "
         "signature malleability (S + L) and bit flips, field and scalar arithmetic against Python big integers.", k)


if __name__ == "__main__":
    main()
