#!/usr/bin/env python3
"""Development aid: evaluate TLA+ expressions with TLC.  usage: tlaeval.py Module 'expr' ['expr'...]
Prints one JSON value per expression."""
import sys, os, subprocess, tempfile, json, shutil, re
SPEC=os.path.join(os.path.dirname(os.path.abspath(__file__)),'..','spec')
JAR="/opt/veriftools/tla/tla2tools.jar:/opt/veriftools/tla/CommunityModules-deps.jar"
def tla_eval(module, exprs, timeout=600, spec=SPEC):
    d=tempfile.mkdtemp(prefix='tlaeval')
    try:
        for f in os.listdir(spec):
            if f.endswith('.tla'): os.symlink(os.path.join(os.path.abspath(spec),f), os.path.join(d,f))
        n=len(exprs)
        body="---- MODULE EvalTmp ----\nEXTENDS %s, Json\nVARIABLE n\nInit == n = 0\nNext == n < %d /\\ n' = n + 1\n"%(module,n)
        body+="Inv == "+" /\\ ".join("(n = %d => PrintT(ToJson(<<\"EV\", %d, %s>>)))"%(i+1,i+1,e) for i,e in enumerate(exprs))+"\n====\n"
        open(os.path.join(d,'EvalTmp.tla'),'w').write(body)
        open(os.path.join(d,'EvalTmp.cfg'),'w').write("INIT Init\nNEXT Next\nINVARIANT Inv\nCHECK_DEADLOCK FALSE\n")
        p=subprocess.run(["java","-Xss1g","-Xmx4g","-XX:+UseSerialGC","-cp",JAR,"tlc2.TLC","-workers","1","-noGenerateSpecTE","-metadir",os.path.join(d,'st'),"-config","EvalTmp.cfg","EvalTmp.tla"],cwd=d,capture_output=True,text=True,timeout=timeout)
        out={}
        for line in p.stdout.splitlines():
            if line.startswith('"[\\"EV\\"'):
                v=json.loads(json.loads(line)); out[v[1]]=v[2]
        if len(out)!=n: sys.stderr.write(p.stdout[-3000:]+p.stderr[-2000:]); raise SystemExit(2)
        return [out[i+1] for i in range(n)]
    finally: shutil.rmtree(d,ignore_errors=True)
if __name__=="__main__":
    for v in tla_eval(sys.argv[1],sys.argv[2:]): print(json.dumps(v))
