#!/usr/bin/env python3
"""Prints the markdown table of seeded changes and which checks caught them (from seeded/*/meta.json)."""
import json, glob, os
ROOT = os.path.dirname(os.path.dirname(os.path.abspath(__file__)))
print("| change | site | needs, in order to manifest | checks run (quick tier) | result |")
print("|---|---|---|---|---|")
for d in sorted(glob.glob(os.path.join(ROOT, "seeded", "*"))):
    m = json.load(open(os.path.join(d, "meta.json")))
    runs = m.get("runs", [])
    res = ", ".join("%s%s: %s" % (r["check"], "/seed%d" % r["seed"] if r.get("seed") else "", "caught (%ds)" % r["wall_s"] if r["detected"] else ("tool error" if r["exit"] == 2 else "missed")) for r in runs) or "not run"
    needs = (m.get("needs") or "").replace("|", "/").replace("\n", " ")
    if len(needs) > 230:
        needs = needs[:227] + "..."
    tail = " (by design, see below)" if m.get("analysis") else ""
    print("| %s | `%s` | %s | %s | %s |" % (os.path.basename(d), (m.get("site") or "").replace("|", "/"), needs, ", ".join(sorted({r["check"] for r in runs})), res + tail))
