"""Variant tables and script construction for the hashing properties (C01, C02, C09, C16, C20)."""
import os
import vlib

# name -> (block size, length-field size or None, digest bytes or None)
MD = {"sha1": (64, 8, 20), "ripemd160": (64, 8, 20), "sha224": (64, 8, 28), "sha256": (64, 8, 32),
      "sha384": (128, 16, 48), "sha512": (128, 16, 64), "sha512_224": (128, 16, 28), "sha512_256": (128, 16, 32)}
SPONGE = {"sha3_224": (144, 2, 28), "sha3_256": (136, 2, 32), "sha3_384": (104, 2, 48), "sha3_512": (72, 2, 64),
          "keccak224": (144, 0, 28), "keccak256": (136, 0, 32), "keccak384": (104, 0, 48), "keccak512": (72, 0, 64)}
BLAKE = {"blake2b": (128, 64, 64), "blake2s": (64, 32, 32)}     # block, max outlen, max keylen
FIXED = list(MD) + list(SPONGE)


def block_of(alg):
    return (MD.get(alg) or SPONGE.get(alg) or BLAKE.get(alg))[0]


def cost_hash(rec):
    """estimated TLC cost of validating one history: compressions weighted by algorithm"""
    alg = rec.get("alg", "")
    b = block_of(alg) if alg else 64
    w = {"sha1": 6, "ripemd160": 8, "sha224": 5, "sha256": 5, "blake2s": 12, "blake2b": 25}.get(alg, 15 if alg in MD else 30)
    c = 1.0
    fed = 0
    for e in rec.get("ev", []):
        d = len(e.get("data", []))
        fed += d
        if e["op"].startswith("finalize") or e["op"] == "oneshot":
            c += w * (1 + (fed if e["op"] != "oneshot" else d) // b)
        c += 0.002 * d
    return c


def write_cfg(R, name, constants, invariants, nxt="Next", constraints=()):
    """instantiate an object machine with run-time constants; returns the cfg path"""
    p = os.path.join(R.work, name + ".cfg")
    with open(p, "w") as f:
        f.write("CONSTANTS " + "  ".join("%s = %s" % kv for kv in constants.items()) + "\nINIT Init\nNEXT %s\n" % nxt)
        for i in invariants:
            f.write("INVARIANT %s\n" % i)
        for c in constraints:
            f.write("CONSTRAINT %s\n" % c)
        f.write("CHECK_DEADLOCK FALSE\n")
    return p


def tla_set(xs):
    return "{" + ", ".join(str(x) for x in sorted(set(xs))) + "}"


def signature(h):
    """control-branch signature of a generated behaviour: the sequence of (op, branch, slot roles)"""
    return tuple((e["op"], e.get("br", ""), e.get("x"), e.get("y", 0), e.get("key", -1)) for e in h)


def select(R, behaviours, n):
    """choose up to n behaviours: one per distinct branch signature first (so every transition of the
    transcribed control flow that TLC reached is replayed), then a seeded sample of the rest"""
    seen = {}
    for h in behaviours:
        seen.setdefault(signature(h), h)
    uniq = list(seen.values())
    R.rng.shuffle(uniq)
    # greedy cover of (op, br) pairs and of (prev br, br) pairs
    need = set()
    chosen = []
    rest = []
    for h in uniq:
        pairs = set()
        prev = ("start", "")
        for e in h:
            cur = (e["op"], e.get("br", ""))
            pairs.add(cur)
            pairs.add((prev, cur))
            prev = cur
        if not pairs <= need:
            need |= pairs
            chosen.append(h)
        else:
            rest.append(h)
    # the cover is never truncated (every transition TLC reached is replayed); n only bounds the extra sample
    if len(chosen) < n:
        chosen += rest[: n - len(chosen)]
    return chosen, len(uniq)


def concretise(R, h, base, keybytes=None, tagseed="m"):
    """abstract behaviour (op list with lengths / key lengths) -> script history for the harness.
    Abstract message byte number n becomes PRNG(seed)[n]; a key of abstract length k becomes the first k
    bytes of the seeded key stream."""
    hid = R.next_id()
    stream = vlib.prng_bytes(R.seed, "%s/%d" % (tagseed, hid), 4096)
    keystream = keybytes or vlib.prng_bytes(R.seed, "key", 64)
    rec = dict(base)
    rec["id"] = hid
    rec["cls"] = "hash"
    ev = [{"op": "new"}]
    pos = 0
    for e in h:
        op = e["op"]
        if op == "new":
            rec["key"] = keystream[: e["key"]]
            continue
        o = {"op": op, "x": e["x"]}
        if "len" in e:
            while pos + e["len"] > len(stream):
                stream += vlib.prng_bytes(R.seed, "%s/%d/%d" % (tagseed, hid, len(stream)), 4096)
            o["data"] = stream[pos: pos + e["len"]]
            pos += e["len"]
        if "y" in e:
            o["y"] = e["y"]
        if "key" in e:
            o["key"] = keystream[: e["key"]]
        ev.append(o)
    rec["ev"] = ev
    return rec
