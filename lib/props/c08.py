"""C08 - HMAC equals RFC 2104 for every supported digest, key and message.

MC:  the Hmac object machine (finished flag, reset re-absorbing the inner pad).
TV:  for each of the 18 legacy digests (+ BLAKE2b/BLAKE2s at several output lengths) x key lengths
     {0, 1, block-1, block, block+1, 2*block+7, seeded} x message chunkings: Hmac::new / input* / result,
     output_bytes(); TLC recomputes H((K' ^ opad) || H((K' ^ ipad) || m)) with the digest's own block size."""
import vlib
from props import hashcommon as hc
from props import maccommon as mc


def run(R):
    thorough = R.tier == "thorough"
    R.model_check("MacObj", "MC_MacObj_hmac.cfg", need_actions=["Input", "Result", "Reset"], workers=4)
    hs = []
    algs = [(a, None) for a in hc.FIXED] + [("blake2b", 64), ("blake2b", 32), ("blake2b", 1), ("blake2s", 32), ("blake2s", 16)]
    for alg, outlen in algs:
        b = hc.block_of(alg)
        kls = [0, 1, 2, b - 2, b - 1, b, b + 1, b + 2, 2 * b - 1, 2 * b, 2 * b + 1, 2 * b + 7, 3 * b + 1] + [R.rng.randrange(2, 2 * b) for _ in range(3)]
        if not thorough:
            # boundary key lengths always; the rest rotates with the seed
            kls = [b - 1, b, b + 1] + [R.rng.choice([0, 1, 2 * b + 7, R.rng.randrange(2, b - 1)])]
        for kl in kls:
            key = vlib.prng_bytes(R.seed, "c08key/%s/%d" % (alg, kl), kl)
            mls = [0, 1, b - 1, b, b + 1, 2 * b - 1, 2 * b, 2 * b + 3, 5 * b] if thorough else [R.rng.choice([0, 1, b - 1, b, b + 1, 2 * b + 3])]
            for ml in mls:
                msg = vlib.prng_bytes(R.seed, "c08msg/%s/%d/%d" % (alg, kl, ml), ml)
                cut = sorted({R.rng.randrange(0, ml + 1) for _ in range(2)}) if ml else []
                ev = [{"op": "new"}, {"op": "output_bytes", "x": 1}]
                pos = 0
                for c in cut + [ml]:
                    ev.append({"op": "input", "x": 1, "data": msg[pos:c]})
                    pos = c
                ev.append({"op": "result" if (kl + ml) % 2 else "raw_result", "x": 1})
                h = {"id": R.next_id(), "cls": "mac", "mac": "hmac", "alg": alg, "key": key, "ev": ev}
                if outlen:
                    h["outlen"] = outlen
                hs.append(h)
                R.count((alg, outlen, kl, ml), trivial=False)
    # an abandoned message: input, reset (without result), then the real message; and reuse after a result
    for alg, outlen in algs:
        b = hc.block_of(alg)
        key = vlib.prng_bytes(R.seed, "c08rkey/" + alg, 20)
        msg = vlib.prng_bytes(R.seed, "c08rmsg/" + alg, b + 9)
        ev = [{"op": "new"}, {"op": "input", "x": 1, "data": msg[:b - 3]}, {"op": "reset", "x": 1}, {"op": "input", "x": 1, "data": msg[:7]}, {"op": "result", "x": 1},
              {"op": "reset", "x": 1}, {"op": "input", "x": 1, "data": msg}, {"op": "raw_result", "x": 1}]
        h = {"id": R.next_id(), "cls": "mac", "mac": "hmac", "alg": alg, "key": key, "ev": ev}
        if outlen:
            h["outlen"] = outlen
        hs.append(h)
        R.count((alg, outlen, "reset-reuse"))
    # the reuse matrix of the Hmac object (MacObj.ReuseShape: input{0,2} result? reset input{0,2} result, chunk lengths incl. the empty chunk):
    # all of it for HMAC-SHA256, a seeded part for three other block sizes
    from props import c09
    nre = 0
    for alg, b, frac in (("sha256", 64, 1.0), ("sha512", 128, 0.1 if not thorough else 1.0), ("sha3_256", 136, 0.05 if not thorough else 0.5), ("blake2s", 64, 0.05 if not thorough else 0.5)):
        behs = c09.gen_reuse(R, "hmac", b, [0, 1, b - 1, b, b + 1])
        base = {"cls": "mac", "mac": "hmac", "alg": alg, "key": vlib.prng_bytes(R.seed, "c08re/" + alg, 24)}
        if alg == "blake2s":
            base["outlen"] = 32
        for bh in behs:
            if frac < 1 and R.rng.random() >= frac:
                continue
            hs.append(mc.concretise(R, bh, base, "c08re"))
            nre += 1
            R.count((alg, "reuse", hc.signature(bh)))
    R.extra["reuse_matrix_histories"] = nre
    R.rule = ("[Hmac::new(digest, key), output_bytes, input x (1..3 seeded cuts), result|raw_result] per (digest, key length, message length): 16 fixed digests + BLAKE2b-64/32/1 + BLAKE2s-32/16; "
              "key lengths " + ("{0,1,2,B-2..B+2,2B-1..2B+1,2B+7,3B+1,3 seeded}" if thorough else "{B-1,B,B+1} + one seeded of {0,1,2B+7,random}") + "; message lengths from {0,1,B-1,B,B+1,2B+3}")
    res = R.conform("TraceMac", hs, cost=mc.cost_mac, describe=mc.describe, timeout=3000 if thorough else 900)
    for r in res["records"][:2] + res["records"][-2:]:
        R.sample({"digest": r["alg"], "outlen": r.get("outlen"), "keylen": len(r["key"]), "inputs": [len(e.get("data", [])) for e in r["ev"] if e["op"] == "input"],
                  "mac": vlib.hexs(r["ev"][-1]["out"]["v"]), "verdict": res["verdicts"][r["id"]][0]})
