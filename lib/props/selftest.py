"""./check selftest - demonstrate that the specification is bound to the implementation and not vacuous.

 1. Design level: the model variants that transcribe a *defective* form of the code (the pinned tree's defects D2, D3,
    D4, D9, D10 and the leaky control-flow idioms) must be rejected by TLC with the expected invariant.
 2. Conformance level, for every trace specification: traces recorded from the real crate are accepted; the same
    traces with (a) one byte of one recorded result flipped, (b) one state-changing event removed, (c) an outcome
    class swapped are rejected, at the history that was tampered with and only there.
Exit 0 when every demonstration behaves as stated, 2 otherwise (a self-test failure is a tool error, not a violation)."""
import copy
import os
import vlib

PINNED = [
    ("StreamCtx", "MC_Drg_pinned.cfg", "D2: Drg fill XORs into the destination"),
    ("MacObj", "MC_MacObj_poly_pinned.cfg", "D3: Poly1305 finalized only when a partial block is pending"),
    ("MacObj", "MC_MacObj_b2mac_pinned.cfg", "D4: keyed BLAKE2 reset forgets the key"),
    ("CT", "MC_CT_pinned.cfg", "D9: ct_le / ct_ge by swapping arguments"),
    ("CT", "MC_CT_arr_pinned.cfg", "D9: array ct_ge by swapping arguments"),
    ("Counters", "MC_Counters_pinned.cfg", "D10: BLAKE2 counter += in a checked profile"),
    ("NonInterference", "MC_NonInterference_leaky.cfg", "leaky control-flow idioms"),
    ("KdfLoops", "MC_KdfLoops_offbyone.cfg", "PBKDF2 iteration loop off by one"),
    ("Barrett", "MC_Barrett_onesub.cfg", "Barrett reduction with a single conditional subtraction"),
]
STATEFUL_OPS = {"update", "update_mut", "input", "process", "process_mut", "add_data", "encrypt", "encrypt_mut"}


def tamper(recs):
    """returns (tampered records, {id: kind})"""
    out = copy.deepcopy(recs)
    marks = {}
    # (a) flip one byte of the last value of the first history that has a value
    for r in out:
        vs = [i for i, e in enumerate(r["ev"]) if e["out"]["k"] == "v" and e["out"]["v"]]
        if vs:
            e = r["ev"][vs[-1]]
            e["out"]["v"][len(e["out"]["v"]) // 2] ^= 1
            marks[r["id"]] = "flip"
            break
    # (b) remove a state-changing event that precedes a value, in another history
    for r in out:
        if r["id"] in marks:
            continue
        for i, e in enumerate(r["ev"]):
            if e.get("op") in STATEFUL_OPS and e.get("data") and any(x["out"]["k"] == "v" and x["out"]["v"] for x in r["ev"][i + 1:]) and e["out"]["k"] in ("n",):
                del r["ev"][i]
                marks[r["id"]] = "drop"
                break
        if r["id"] in marks and marks[r["id"]] == "drop":
            break
    # (c) swap an outcome class: a refusal becomes "no value" (or a "no value" becomes a refusal)
    for r in out:
        if r["id"] in marks:
            continue
        ps = [e for e in r["ev"] if e["out"]["k"] == "p"]
        ns = [e for e in r["ev"] if e["out"]["k"] == "n"]
        if ps:
            ps[0]["out"]["k"] = "n"
            marks[r["id"]] = "class"
            break
        if ns:
            ns[-1]["out"]["k"] = "p"
            marks[r["id"]] = "class"
            break
    return out, marks


def run(tier, seed):
    R = vlib.Run("SELFTEST", "quick", seed)
    fails = 0
    # ---- 1. defective model variants must be rejected
    for module, cfg, what in PINNED:
        r = vlib.run_tlc(module, cfg, os.path.join(R.work, "mc." + cfg), workers=4, timeout=600, xmx="6g")
        ok = bool(r.invariant_violated)
        print("[selftest] %-16s %-32s %s  (%s)" % (module, cfg, "rejected by TLC: invariant %s" % r.invariant_violated[0] if ok else "NOT REJECTED", what))
        fails += 0 if ok else 1
    try:
        R.apalache("CountersA", "CInit64Pinned", expect_error=True)
        print("[selftest] apalache/CountersA CInit64Pinned            counterexample found by Apalache  (D10 at the real width)")
    except vlib.ToolError as e:
        print("[selftest] apalache/CountersA CInit64Pinned NOT REJECTED: %s" % e)
        fails += 1
    # ---- 2. tampered traces must be rejected, untouched ones accepted
    plans = [("c01", "TraceHash", 14), ("c03", "TraceStream", 14), ("c05", "TraceMac", 14), ("c06", "TraceAead", 10), ("c10", "TraceKdf", 12), ("c18", "TraceCT", 10), ("c12", "TraceCurve", 4)]
    for mod, tm, n in plans:
        ws = [w for w in vlib.collect_workload(R, mod, "quick") if w["trace_module"] == tm]
        recs = ws[0]["records"][:n] + ([r for r in ws[0]["records"][n:] if any(e["out"]["k"] == "p" for e in r["ev"])][:2])
        good, _ = vlib.validate(tm, recs, os.path.join(R.work, "st." + tm), label="good")
        bad = [i for i, v in good.items() if v[0] != "DONE"]
        bad_recs, marks = tamper(recs)
        verd, _ = vlib.validate(tm, bad_recs, os.path.join(R.work, "st." + tm), label="tampered")
        wrong = [i for i, v in verd.items() if (v[0] == "BAD") != (i in marks)]
        ok = not bad and not wrong and marks
        print("[selftest] %-12s %d recorded histories accepted: %s; tampered %s -> rejected exactly those: %s" % (
            tm, len(recs), not bad, sorted(marks.values()), not wrong))
        fails += 0 if ok else 1
    # ---- TraceApi: a refused shape reported as a value, a legal shape reported as refused
    import props.c20 as c20
    shapes = R.generate("ApiDomain", "GEN_ApiDomain.cfg")
    hs = []
    for g in shapes[::40]:
        h, _ = c20.concretise(R, g["shape"], g["legal"])
        hs.append(h)
    recs = R.drive_on(hs, "rel", "st.api")
    good, _ = vlib.validate("TraceApi", recs, os.path.join(R.work, "st.api"), label="good")
    bad_recs, marks = tamper(recs)
    marks = {k: v for k, v in marks.items() if v == "class"}
    bad_recs = [b if b["id"] in marks else g for b, g in zip(bad_recs, recs)]
    verd, _ = vlib.validate("TraceApi", bad_recs, os.path.join(R.work, "st.api"), label="tampered")
    wrong = [i for i, v in verd.items() if (v[0] == "BAD") != (i in marks)]
    ok = all(v[0] == "DONE" for v in good.values()) and not wrong and marks
    print("[selftest] TraceApi     %d shape histories accepted: %s; outcome class swapped -> rejected exactly that one: %s" % (len(recs), all(v[0] == "DONE" for v in good.values()), not wrong))
    fails += 0 if ok else 1
    # ---- TraceEquiv: one copy differs in one byte
    by = {"rel": recs, "copy": copy.deepcopy(recs)}
    tgt = next(r for r in by["copy"] if any(e["out"]["v"] for e in r["ev"]))
    e = next(e for e in tgt["ev"] if e["out"]["v"])
    e["out"]["v"][0] ^= 0x80
    R.equiv(by, "st.equiv")
    ok = len(R.violations) == 1 and R.violations[0]["record"]["id"] == tgt["id"]
    print("[selftest] TraceEquiv   two copies, one byte of one copy flipped -> rejected exactly that history: %s" % ok)
    fails += 0 if ok else 1
    print("[selftest] %s" % ("ok" if not fails else "%d demonstration(s) FAILED" % fails))
    return 0 if not fails else 2
