"""./check setup: parse every module, run the known-answer tests of the functional layer, build the harness."""
import glob
import os
import subprocess
import sys
import vlib

KATS = sorted(os.path.basename(p)[:-4] for p in glob.glob(os.path.join(vlib.SPEC, "SpecKAT_*.tla")))


def run(tier, seed):
    os.makedirs(vlib.WORK, exist_ok=True)
    # 1. SANY on every module
    mods = sorted(glob.glob(os.path.join(vlib.SPEC, "*.tla")))
    bad = 0
    procs = []
    for m in mods:
        procs.append((m, subprocess.Popen(["java", "-cp", vlib.JARS, "tla2sany.SANY", os.path.basename(m)], cwd=vlib.SPEC,
                                          stdout=subprocess.PIPE, stderr=subprocess.STDOUT, text=True)))
    for m, p in procs:
        out, _ = p.communicate()
        if p.returncode != 0 or "*** Errors" in out or "Fatal" in out:
            print("SANY failed for", m, "\n", out[-1500:])
            bad += 1
    print("[setup] SANY parsed %d modules, %d failures" % (len(mods), bad))
    if bad:
        return 2
    # 2. known-answer tests
    ps = [(k, vlib.spawn_tlc(k, k + ".cfg", os.path.join(vlib.WORK, "meta." + k))) for k in KATS]
    fails = 0
    for k, p in ps:
        out, _ = p.communicate(timeout=1800)
        r = vlib.TlcResult(out, p.returncode, 0)
        ok = [v for v in r.printed if isinstance(v, list) and v[0] == "KAT" and v[2] == "ok"]
        ko = [v for v in r.printed if isinstance(v, list) and v[0] == "KAT" and v[2] != "ok"]
        print("[setup] %s: %d ok, %d failed%s" % (k, len(ok), len(ko), (" ERROR " + r.error) if r.error else ""))
        if ko or r.error or not ok:
            fails += 1
    if fails:
        return 2
    # 3. harness in every configuration the checks use (a configuration that cannot be built is reported by the check that
    #    needs it, not here: e.g. force-32bits failing to compile is a violation of C17), and the instruction tracer of C19
    res = vlib.build_many(["rel", "sse41", "avx", "avx2", "dbg", "relchk", "f32"], allow_fail=("f32",))
    print("[setup] harness builds: %s" % {k: ("ok" if isinstance(v, str) else "FAILED") for k, v in res.items()})
    import props.c19 as c19
    c19.build_tracer()
    print("[setup] ok")
    return 0
