"""./check <PID> --replay <path>: re-run exactly the history of a replay file through the same build(s) and the
same trace specification; exit 1 with the VIOLATION line again if it is still rejected, 0 if it is now accepted."""
import json
import os
import vlib


def run(R, mod, path):
    rp = json.load(open(path))
    h = rp["history"]
    tm = rp["trace_module"]
    R.work = os.path.join(vlib.WORK, R.pid + ".replay")
    os.makedirs(R.work, exist_ok=True)
    if h.get("cls") == "pctrace":
        import props.c19 as c19
        c19.replay(R, rp)
    elif tm == "(cargo build)":
        import props.c17 as c17
        c17.compiles(R)
    elif tm == "TraceEquiv":
        tags = rp.get("builds") or [rp["build"]]
        by = {t: R.drive_on([h], t, "replay." + t) for t in tags}
        R.equiv(by, "replay.equiv", describe=lambda r, v: rp.get("desc", {}))
    else:
        recs = R.drive_on([h], rp["build"], "replay." + rp["build"])
        R.judge(tm, recs, rp["build"], describe=lambda r, v: rp.get("desc", {}), label="replay")
    for v in R.violations:
        e = v["record"]["ev"][v["position"] - 1] if 0 < v["position"] <= len(v["record"]["ev"]) else {}
        print("VIOLATION property=%s replay=%s" % (R.pid, path))
        vlib.log("  event %d %s: expected %s observed %s" % (v["position"], e.get("op"), vlib._short(v["expected"]), vlib._short(v["observed"])))
        return 1
    print("replay accepted: the history in %s is now consistent with the specification" % path)
    return 0
