"""C02 - hash contexts: any split, clone, reset or reuse gives the one-shot digest.

MC:  MDCtx, SpongeCtx (SHA-3 and Keccak padding), Blake2Ctx explored exhaustively over all operation
     histories {update, update_mut, clone, reset, reset_with_key, finalize_reset[_with_key], finalize} to a
     fixed depth at block size 4; invariants: buffered + compressed bytes = bytes fed; the blocks compressed
     at finalize are the standard's for `fed` (and the key the context was last (re)created with).
GEN: the same machines instantiated at the real block sizes print every behaviour of a shallower tree;
     one behaviour per distinct control-branch signature (plus a seeded sample) is replayed on the real contexts.
TV:  TraceHash tracks (key, fed) per context slot and demands Digest(variant, key, fed) at every finalize."""
import vlib
from props import hashcommon as hc


def gen_md(R, b, lb, depth, lens):
    cfg = hc.write_cfg(R, "GEN_MDCtx%d" % b, {"B": b, "LB": lb, "MaxFed": 5 * b, "MaxOps": depth, "NCtx": 2, "Lens": hc.tla_set(lens), "Gen": "TRUE"},
                       ["InvBuffer", "InvDigest", "Emit"])
    return R.generate("MDCtx", cfg)


def gen_sponge(R, rate, dslen, dlen, depth, lens):
    cfg = hc.write_cfg(R, "GEN_Sponge%d_%d" % (rate, dslen), {"Rate": rate, "DSLEN": dslen, "DLen": dlen, "MaxFed": 5 * rate, "MaxOps": depth, "NCtx": 2,
                                                             "Lens": hc.tla_set(lens), "Gen": "TRUE"}, ["InvAbsorb", "InvDigest", "Emit"])
    return R.generate("SpongeCtx", cfg)


def gen_blake(R, b, maxkey, depth, lens):
    cfg = hc.write_cfg(R, "GEN_Blake2Ctx%d" % b, {"B": b, "M": 256, "MaxFed": 5 * b, "MaxOps": depth, "NCtx": 2, "Keys": hc.tla_set([0, 1, maxkey]),
                                                 "Lens": hc.tla_set(lens), "Gen": "TRUE"}, ["InvDigest", "InvBuf", "Emit"])
    return R.generate("Blake2Ctx", cfg)


def gen_reuse(R, module, name, consts, invs):
    """update{0,2} R update{0,2} finalize (ReuseShape of the context machines)"""
    c = dict(consts)
    c.update({"MaxOps": 6, "NCtx": 1, "Gen": "TRUE"})
    cfg = hc.write_cfg(R, "GENR_" + name, c, invs + ["EmitReuse"], constraints=["ReuseShape"])
    return R.generate(module, cfg)


def run(R):
    thorough = R.tier == "thorough"
    # ---- design level
    R.model_check("MDCtx", "MC_MDCtx.cfg" if not thorough else "MC_MDCtx_deep.cfg", need_actions=["Feed", "Finalize", "FinalizeReset", "Reset", "Clone"], workers=8)
    R.model_check("SpongeCtx", "MC_SpongeCtx_sha3.cfg", need_actions=["Feed", "Finalize", "FinalizeReset", "Reset", "Clone"], workers=8)
    R.model_check("SpongeCtx", "MC_SpongeCtx_keccak.cfg", need_actions=["Feed", "Finalize", "FinalizeReset", "Reset", "Clone"], workers=8)
    R.model_check("Blake2Ctx", "MC_Blake2Ctx.cfg" if thorough else "MC_Blake2Ctx_quick.cfg",
                  need_actions=["Feed", "Finalize", "FinalizeReset", "FinalizeResetWithKey", "Reset", "ResetWithKey", "Clone"], workers=8, xmx="12g")
    # ---- behaviours at the real block sizes
    depth = 4 if thorough else 3
    per_alg = 1500 if thorough else 40
    hs = []
    sigs = 0

    def use(behs, bases, n, label):
        nonlocal sigs
        for base in bases:
            chosen, nu = hc.select(R, behs, n)
            sigs += nu
            for h in chosen:
                rec = hc.concretise(R, h, base)
                hs.append(rec)
                R.count((label, base.get("alg"), base.get("api"), hc.signature(h)))

    b64 = gen_md(R, 64, 8, depth, [0, 1, 55, 56, 63, 64, 65, 129] if thorough else [0, 1, 55, 56, 64, 65, 129])
    use(b64, [{"alg": a} for a in ["sha1", "ripemd160", "sha224", "sha256"]], per_alg, "md64")
    b128 = gen_md(R, 128, 16, depth, [0, 1, 111, 112, 127, 128, 129, 257] if thorough else [0, 1, 111, 112, 128, 129, 257])
    use(b128, [{"alg": a} for a in ["sha384", "sha512", "sha512_224", "sha512_256"]], per_alg, "md128")
    for alg, (rate, ds, dl) in hc.SPONGE.items():
        bs = gen_sponge(R, rate, ds, dl, depth, [0, 1, rate - 1, rate, rate + 1, 2 * rate, 2 * rate + 1] if thorough else [0, 1, rate - 1, rate, rate + 1, 2 * rate + 1])
        use(bs, [{"alg": alg}], per_alg, "sponge")
    for alg, (b, mo, mk) in hc.BLAKE.items():
        bs = gen_blake(R, b, mk, depth, [0, 1, b - 1, b, b + 1, 2 * b, 2 * b + 1] if thorough else [0, 1, b - 1, b, b + 1, 2 * b + 1])
        bases = [{"alg": alg, "api": "dyn", "outlen": mo}, {"alg": alg, "api": "const", "outlen": 32}, {"alg": alg, "api": "dyn", "outlen": 1},
                 {"alg": alg, "api": "const", "outlen": 20}]
        use(bs, bases, per_alg, "blake2")
    # ---- the reference itself: the one-call function of every variant that has one, next to a split of the same message through a context
    for alg in hc.FIXED + ["blake2b", "blake2s"]:
        b = hc.block_of(alg)
        outs = [None] if alg in hc.FIXED else ([28, 32, 48, 64] if alg == "blake2b" else [28, 32])
        for o in outs:
            msg = vlib.prng_bytes(R.seed, "c02one/%s" % alg, b + 9)
            base = {"alg": alg} if o is None else {"alg": alg, "api": "const", "outlen": o, "key": []}
            hs.append(dict(base, id=R.next_id(), cls="hash", ev=[{"op": "oneshot", "data": msg}, {"op": "new"}, {"op": "update", "x": 1, "data": msg[:5]}, {"op": "update_mut", "x": 1, "data": msg[5:]},
                                                                   {"op": "finalize", "x": 1}]))
            R.count(("one-call", alg, o))
    # ---- reuse matrix: what the context held when it was re-initialised x what it is fed afterwards; all of it in the thorough tier,
    # a seeded part per variant in the quick tier.  BLAKE2 includes bit lengths that are not a multiple of 8 (const-generic contexts).
    nre = 0

    def use_part(behs, bases, frac, label):
        nonlocal nre
        for base in bases:
            for h in behs:
                if frac < 1 and R.rng.random() >= frac:
                    continue
                hs.append(hc.concretise(R, h, base))
                nre += 1
                R.count((label, base.get("alg"), base.get("api"), base.get("bits", base.get("outlen")), hc.signature(h)))
    fr = 1.0 if thorough else 0.04
    r64 = gen_reuse(R, "MDCtx", "MD64", {"B": 64, "LB": 8, "MaxFed": 5 * 64, "Lens": hc.tla_set([0, 1, 55, 56, 64, 65])}, ["InvBuffer", "InvDigest"])
    use_part(r64, [{"alg": a} for a in ["sha1", "ripemd160", "sha224", "sha256"]], fr, "reuse-md64")
    r128 = gen_reuse(R, "MDCtx", "MD128", {"B": 128, "LB": 16, "MaxFed": 5 * 128, "Lens": hc.tla_set([0, 1, 111, 112, 128, 129])}, ["InvBuffer", "InvDigest"])
    use_part(r128, [{"alg": a} for a in ["sha384", "sha512", "sha512_224", "sha512_256"]], fr, "reuse-md128")
    for alg, (rate, ds, dl) in hc.SPONGE.items():
        rs = gen_reuse(R, "SpongeCtx", "Sp%d_%d" % (rate, ds), {"Rate": rate, "DSLEN": ds, "DLen": dl, "MaxFed": 5 * rate, "Lens": hc.tla_set([0, 1, rate - 1, rate, rate + 1])},
                       ["InvAbsorb", "InvDigest"])
        use_part(rs, [{"alg": alg}], fr * 0.6, "reuse-sponge")
    for alg, (b, mo, mk) in hc.BLAKE.items():
        rb = gen_reuse(R, "Blake2Ctx", "B2_%d" % b, {"B": b, "M": 256, "MaxFed": 5 * b, "Keys": hc.tla_set([0, 1, mk]), "Lens": hc.tla_set([0, 1, b - 1, b, b + 1])}, ["InvDigest", "InvBuf"])
        oddbits = [505, 250, 9] if alg == "blake2b" else [255, 250, 9]
        bases = [{"alg": alg, "api": "dyn", "outlen": mo}, {"alg": alg, "api": "const", "outlen": 32}, {"alg": alg, "api": "dyn", "outlen": 3}] + \
                [{"alg": alg, "api": "const", "bits": n} for n in oddbits]
        use_part(rb, bases, fr * 0.12, "reuse-blake2")
    R.extra["reuse_matrix_histories"] = nre
    R.extra["distinct_branch_signatures_generated"] = sigs
    R.rule = ("behaviours printed by TLC from the context machines at the real block sizes (depth %d, 2 context slots); per variant one behaviour "
              "per newly covered (op,branch) and (branch,next branch) pair, then a seeded sample up to %d; bytes = PRNG(seed); distinct = (variant, api, "
              "branch signature); all are non-trivial (contain a finalize)" % (depth, per_alg))
    res = R.conform("TraceHash", hs, cost=hc.cost_hash, describe=lambda r, v: {"cls": "hash", "alg": r["alg"], "op": r["ev"][v[1] - 1]["op"]},
                    timeout=3000 if thorough else 900)
    for r in res["records"][:2] + res["records"][len(hs) // 2: len(hs) // 2 + 2] + res["records"][-2:]:
        R.sample({"alg": r["alg"], "api": r.get("api"), "keylen": len(r.get("key", [])),
                  "history": [(e["op"], e.get("x"), len(e["data"]) if "data" in e else (len(e["key"]) if "key" in e else e.get("y"))) for e in r["ev"]],
                  "outputs": [vlib.hexs(e["out"]["v"])[:16] for e in r["ev"] if e["out"]["k"] == "v"], "verdict": res["verdicts"][r["id"]][0]})
    R.assumptions += ["exhaustiveness is over operation histories and length classes; byte contents are seeded",
                      "the context machines are transcriptions of the pinned control flow; verdicts depend only on public outputs"]
