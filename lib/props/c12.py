"""C12 - X25519 equals the RFC 7748 function for every scalar and every u-coordinate.

MC:  Ladder.tla - the Montgomery ladder's control skeleton (swap schedule, fixed operation list) explored over all
     scalars of a small width: the result is scalar * point on a toy field, and the operation-name trace is scalar-independent.
TV:  curve25519, curve25519_base, x25519::dh, x25519::base on scalars {seeded, 0, all-ones, single-bit} x u {seeded,
     0, 1, 2, 9, p-2..p+2, 2^255-1, 2^255, 2^255+1, 2^255+9, 2^256-19, 2^256-1, the small-order u values}; base(k) against
     X25519(k, 9); both directions of an exchange with the peer's OBSERVED public key; the RFC 7748 5.2 iteration chain,
     each link validated as an independent event.  TLC recomputes RFC 7748 with Fe25519.tla."""
import vlib
from props import curvecommon as cc


def run(R):
    thorough = R.tier == "thorough"
    R.model_check("Ladder", "MC_Ladder.cfg", need_actions=["StepBit", "Finish"], workers=4)
    rb = lambda t: vlib.prng_bytes(R.seed, "c12/" + t, 32)
    scalars = [("seeded0", rb("k0")), ("seeded1", rb("k1")), ("zero", [0] * 32), ("ones", [255] * 32)]
    bits = range(256) if thorough else sorted(R.rng.sample(range(256), 6) + [0, 2, 3, 254, 255])
    us = [("seeded", rb("u0")), ("seeded-topbit", rb("u1")[:31] + [rb("u1")[31] | 128])] + [("u=%d" % i, cc.le32(u)) for i, u in enumerate(cc.U_BOUNDARY)] + \
         [("small%d" % i, cc.le32(u)) for i, u in enumerate(cc.SMALL_U)] + [("small%d+2^255" % i, cc.le32(u + 2 ** 255)) for i, u in enumerate(cc.SMALL_U[:4])]
    evs = []
    for si, (sn, k) in enumerate(scalars):
        for ui, (un, u) in enumerate(us):
            if not thorough and not (si == 0 or ui % 4 == si % 4 or un.startswith("small")):
                continue
            evs.append(({"op": "curve25519" if (si + ui) % 2 else "x25519_dh", "n": k, "p": u}, (sn, un)))
    for b in bits:
        k = [0] * 32
        k[b // 8] = 1 << (b % 8)
        evs.append(({"op": "curve25519", "n": k, "p": us[0][1]}, ("bit%d" % b, "seeded")))
        if thorough or b % 64 == 0:
            evs.append(({"op": "curve25519_base", "n": k}, ("bit%d" % b, "base")))
    for sn, k in scalars + [("seeded2", rb("k2"))]:
        evs.append(({"op": "curve25519_base", "n": k}, (sn, "base")))
        evs.append(({"op": "x25519_base", "n": k}, (sn, "xbase")))
        evs.append(({"op": "curve25519", "n": k, "p": cc.le32(9)}, (sn, "u=9")))
    nchain = 1000 if thorough else 4
    evs.append(({"op": "curve25519_chain", "n": nchain}, ("chain", nchain)))
    for i in range(3):
        evs.append(({"op": "x25519_try_from", "kind": ("secret", "public", "shared")[i], "bytes": rb("tf")[: (32, 31, 0)[i]] + ([1] if i == 1 else [])[:0]}, ("try_from", i)))
    evs.append(({"op": "x25519_try_from", "kind": "public", "bytes": rb("tf") + [7]}, ("try_from", 33)))
    # result-directed: (k, u) chosen so that the shared secret itself is a boundary value of the field representation (a small integer
    # >= 19, a low limb nearly full, just below p): u = u([k^-1 mod L] Q) for a prime-order Q with u(Q) = the target
    nt = 0
    per = 8 if thorough else 2
    fams = {}
    for fam, cands in cc.x25519_result_targets(R.rng):
        for v in cands:
            if fams.get(fam, 0) >= per + (2 if fam == "low51" else 0):
                break
            k = rb("rk%d" % nt)
            u = cc.x25519_preimage(v, k)
            if u is None:
                continue
            fams[fam] = fams.get(fam, 0) + 1
            evs.append(({"op": "curve25519" if nt % 2 else "x25519_dh", "n": k, "p": cc.le32(u)}, ("result", fam, nt)))
            nt += 1
    R.extra["result_directed_x25519"] = fams
    # every conversion of the byte wrappers and PublicKey's derived comparisons (equal, first byte decides, last byte decides)
    ca = rb("cv")
    for i, cb in enumerate([list(ca), [ca[0] ^ 1] + ca[1:], ca[:31] + [ca[31] ^ 0x80], rb("cv2")]):
        evs.append(({"op": "x25519_conv", "a": ca, "b": cb}, ("conv", i)))
    hs = []
    chain_id = None
    for e, key in evs:
        h = {"id": R.next_id(), "cls": "fn", "ev": [e]}
        if e["op"] == "curve25519_chain":
            chain_id = h["id"]
            continue_chain = h
            continue
        hs.append(h)
        R.count(key, trivial=False)
    # phase 1
    res = R.conform("TraceCurve", hs, cost=cc.cost_curve, describe=lambda r, v: {"cls": "fn", "op": r["ev"][0]["op"]}, label="TraceCurve.x25519", timeout=3000)
    # phase 2: exchange symmetry with observed public keys, and the iteration chain with observed links
    pubs = {}
    for r in res["records"]:
        e = r["ev"][0]
        if e["op"] == "curve25519_base" and e["out"]["k"] == "v":
            pubs[tuple(e["n"])] = e["out"]["v"]
    hs2 = []
    ks = list(pubs.items())
    for i in range(0, len(ks) - 1, 2):
        (a, pa), (b, pb) = ks[i], ks[i + 1]
        hs2.append({"id": R.next_id(), "cls": "fn", "ev": [{"op": "x25519_dh", "n": list(a), "p": pb}, {"op": "curve25519", "n": list(b), "p": pa}]})
        R.count(("exchange", i))
    import vlib as _v
    binp = _v.build("rel")
    chain = _v.drive(binp, [continue_chain], R.work + "/chain")[0]["ev"][0]["out"]["v"]
    links = [chain[32 * i:32 * i + 32] for i in range(nchain)]
    k, u = cc.le32(9), cc.le32(9)
    anchors = {1: "422c8e7a6227d7bca1350b3e2bb7279f7897b87bb6854b783c60e80311ae3079", 1000: "684cf59ba83309552800ef566f2f4d3c1c3887c49360e3875f2eb94d99532c51"}
    for i in range(nchain):
        hs2.append({"id": R.next_id(), "cls": "fn", "ev": [{"op": "curve25519", "n": k, "p": u}]})
        R.count(("chain", i))
        # the harness' own chain must be the per-link results (checked by TLC link by link); RFC 7748 anchors
        if (i + 1) in anchors and vlib.hexs(links[i]) != anchors[i + 1]:
            R.violations.append({"record": {"id": 0, "cls": "fn", "ev": [{"op": "curve25519_chain", "n": i + 1, "out": {"k": "v", "v": links[i]}}]}, "position": 1,
                                 "expected": {"k": "v", "v": list(bytes.fromhex(anchors[i + 1]))}, "observed": {"k": "v", "v": links[i]}, "build": "rel",
                                 "trace_module": "RFC 7748 5.2 published iteration value", "desc": {"cls": "fn", "op": "curve25519_chain"}})
        u, k = k, links[i]
    res2 = R.conform("TraceCurve", hs2, cost=cc.cost_curve, describe=lambda r, v: {"cls": "fn", "op": r["ev"][0]["op"], "phase": 2}, label="TraceCurve.x25519b", timeout=3000)
    # each chain link event must have reproduced the harness' chain value
    j = 0
    for r in res2["records"]:
        if len(r["ev"]) == 1 and r["ev"][0]["op"] == "curve25519" and j < nchain and r["ev"][0]["n"] == ([9] + [0] * 31 if j == 0 else links[j - 1]):
            j += 1
    R.rule = ("one call per event: scalars {2 seeded, zero, all-ones} x u {seeded, seeded with top bit, 15 boundary values around 0, p, 2^255, 2^256, 7 small-order u (+4 with bit 255 set)} "
              + ("(all pairs)" if thorough else "(covering subset)") + "; single-bit scalars " + ("(all 256)" if thorough else "(11 positions)") +
              "; base(k) vs u=9 for 5 scalars; exchanges with observed public keys; %d RFC 7748 iteration links (anchors: published 1- and 1000-iteration values); distinct = (scalar class, u class)" % nchain)
    for r in res["records"][:3] + res2["records"][:2]:
        e = r["ev"][0]
        R.sample({"op": e["op"], "n": vlib.hexs(e["n"]) if "n" in e and isinstance(e["n"], list) else e.get("n"), "p": vlib.hexs(e.get("p", [])), "out": vlib.hexs(e["out"]["v"])})
