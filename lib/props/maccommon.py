"""Script construction for the MAC / legacy-digest properties (C05, C08, C09)."""
import vlib
from props import hashcommon as hc

DIGESTS = list(hc.FIXED) + ["blake2b", "blake2s"]


def cost_mac(rec):
    kind = rec.get("mac") or "digest"
    alg = rec.get("alg", "")
    b = hc.block_of(alg) if alg else 16
    w = {"poly1305": 0.6}.get(kind, {"sha1": 6, "ripemd160": 8, "sha224": 5, "sha256": 5, "blake2s": 12, "blake2b": 25}.get(alg, 15 if alg in hc.MD else 30))
    c = 1.0
    fed = 0
    for e in rec.get("ev", []):
        fed += len(e.get("data", []))
        if e["op"] in ("result", "raw_result", "result_str"):
            c += w * (1 + fed // b + (4 if kind == "hmac" else 0) + (len(rec.get("key", [])) // b if kind == "hmac" else 0))
    return c


def concretise(R, h, base, tag):
    """behaviour of MacObj (GEN) -> script"""
    hid = R.next_id()
    rec = dict(base)
    rec["id"] = hid
    stream = vlib.prng_bytes(R.seed, "macdata/%s/%d" % (tag, hid), 1024)
    pos = 0
    ev = [{"op": "new"}]
    for e in h:
        o = {"op": e["op"], "x": e["x"]}
        if rec["cls"] == "digest" and o["op"] == "raw_result":
            o["op"] = "result"          # the Digest trait has a single result method
        if "len" in e:
            o["data"] = stream[pos:pos + e["len"]]
            pos += e["len"]
        if "y" in e:
            o["y"] = e["y"]
        ev.append(o)
    rec["ev"] = ev
    return rec


def describe(r, v):
    e = r["ev"][v[1] - 1]
    fed = 0
    nres = 0
    for x in r["ev"][: v[1] - 1]:
        if x["op"] == "reset":
            fed, nres = 0, 0
        elif x["op"] in ("input",) and x.get("x", 1) == e.get("x", 1):
            fed += len(x.get("data", []))
        elif x["op"] in ("result", "raw_result") and x.get("x", 1) == e.get("x", 1):
            nres += 1
    return {"cls": r["cls"], "obj": r.get("mac") or r.get("alg"), "alg": r.get("alg"), "op": e["op"], "after_results": min(nres, 1),
            "keyed": bool(r.get("key"))}
