"""C06 - ChaCha20-Poly1305 equals RFC 8439; decrypt inverts encrypt, one-shot or streamed.

MC:  AeadCtx explored exhaustively: every partition of AAD and data (lengths {0,1,3,4,5} at MAC block 4) across
     add_data / encrypt / encrypt_mut / decrypt / decrypt_mut; invariants: outputs position-indexed, decryption
     returns the plaintext, MAC input = aad|pad|ct|pad|len|len of RFC 8439 2.8.
TV:  phase 1: key lengths {16,32} x |aad|,|pt| in {0,1,15,16,17,63,64,65} (+ seeded up to several KiB) through the
     one-shot object and the incremental encryption path with seeded partitions; TLC recomputes ciphertext and tag
     (AEAD.tla).  phase 2: the ciphertexts and tags OBSERVED in phase 1 are fed to one-shot and incremental
     decryption (both decrypt and decrypt_mut); TLC recomputes plaintext and verdict from those inputs."""
import vlib
from props import aeadcommon as ac

LENS = [0, 1, 15, 16, 17, 63, 64, 65]


def run(R):
    thorough = R.tier == "thorough"
    R.model_check("AeadCtx", "MC_AeadCtx.cfg", need_actions=["AddData", "ToEnc", "ToDec", "Enc", "Dec", "Finalize"], workers=4)
    cases = []
    lens_t = LENS + [31, 32, 33, 127, 128, 129, 255, 256, 257]
    for kl in (16, 32):
        pairs = [(a, p) for a in lens_t for p in lens_t] if thorough else \
            [(a, p) for a in LENS for p in LENS if (a + p + kl) % 5 == 0 or a == p or (a, p) in ((0, 65), (17, 63), (16, 16))]
        for (a, p) in pairs:
            cases.append((20, kl, a, p))
    for rounds in (8, 12):
        for kl in (16, 32):
            cases.append((rounds, kl, 17, 65))
            if thorough:
                cases += [(rounds, kl, a, p) for a in LENS for p in LENS if (a + p) % 3 == 0]
    for n in ([1000, 4096, 5000] + [R.rng.randrange(66, 3000) for _ in range(40)] if thorough else [1500]):
        cases.append((20, 32 if n % 2 else 16, R.rng.randrange(0, 300), n))
    enc = []
    meta = {}
    for (rounds, kl, a, p) in cases:
        tag = "%d/%d/%d/%d" % (rounds, kl, a, p)
        key = vlib.prng_bytes(R.seed, "c06key/" + tag, kl)
        nonce = vlib.prng_bytes(R.seed, "c06nonce/" + tag, 12)
        aad = vlib.prng_bytes(R.seed, "c06aad/" + tag, a)
        pt = vlib.prng_bytes(R.seed, "c06pt/" + tag, p)
        h1 = ac.one_history(R, rounds, key, nonce, aad, pt, "enc")
        h2 = ac.inc_history(R, rounds, key, nonce, aad, pt, "enc", k_aad=R.rng.choice([1, 2, 3]), k_data=R.rng.choice([1, 2, 3]))
        enc += [h1, h2]
        if thorough:      # two more partitions of the same data across the incremental calls
            enc += [ac.inc_history(R, rounds, key, nonce, aad, pt, "enc", k_aad=R.rng.choice([1, 2, 3]), k_data=R.rng.choice([1, 2, 3])) for _ in range(2)]
        meta[h1["id"]] = (rounds, key, nonce, aad, pt)
        R.count(("enc", rounds, kl, a, p), trivial=(a == 0 and p == 0))
    # designed partitions: a middle piece that starts mid-block, crosses the end of a 64-byte keystream block and ends mid-block (10+70+34, 33+64+17, ...),
    # AAD and data pieces of 16 bytes and more arriving while 1..15 bytes are staged in the MAC
    for j, (rounds, kl, aparts, dparts) in enumerate([(20, 32, [7, 43], [10, 70, 34]), (20, 16, [16, 1, 20], [33, 64, 17]), (12, 32, [3], [5, 128, 6, 70]), (8, 16, [15, 17], [1, 63, 65, 2]),
                                                      (20, 32, [], [60, 8, 130]), (20, 32, [0, 5], [0, 50, 64]), (20, 16, [9], [10, 10, 44, 0, 64])]):
        tag = "designed/%d" % j
        key, nonce = vlib.prng_bytes(R.seed, "c06key/" + tag, kl), vlib.prng_bytes(R.seed, "c06nonce/" + tag, 12)
        aad, pt = vlib.prng_bytes(R.seed, "c06aad/" + tag, sum(aparts)), vlib.prng_bytes(R.seed, "c06pt/" + tag, sum(dparts))
        for mut in (0, 1):
            ev = [{"op": "new"}]
            pos = 0
            for a in aparts:
                ev.append({"op": "add_data", "x": 1, "data": aad[pos:pos + a]}); pos += a
            ev.append({"op": "to_encryption", "x": 1})
            pos = 0
            for i, d in enumerate(dparts):
                ev.append({"op": ("encrypt", "encrypt_mut")[(i + mut) % 2], "x": 1, "data": pt[pos:pos + d]}); pos += d
            ev.append({"op": "finalize", "x": 1})
            enc.append({"id": R.next_id(), "cls": "aead", "rounds": rounds, "key": key, "nonce": nonce, "ev": ev})
        # a clone taken after the first data piece (mid keystream block, MAC bytes staged): both copies are fed the rest and finalised
        if len(dparts) >= 2 and dparts[0] % 64:
            ev = [{"op": "new"}] + [{"op": "add_data", "x": 1, "data": aad}] + [{"op": "to_encryption", "x": 1}, {"op": "encrypt", "x": 1, "data": pt[:dparts[0]]}, {"op": "clone", "x": 1, "y": 2},
                  {"op": "encrypt_mut", "x": 2, "data": pt[dparts[0]:]}, {"op": "finalize", "x": 2}, {"op": "encrypt", "x": 1, "data": pt[dparts[0]:]}, {"op": "finalize", "x": 1}]
            enc.append({"id": R.next_id(), "cls": "aead", "rounds": rounds, "key": key, "nonce": nonce, "ev": ev})
        h1 = ac.one_history(R, rounds, key, nonce, aad, pt, "enc")
        enc.append(h1)
        meta[h1["id"]] = (rounds, key, nonce, aad, pt)
        R.count(("enc-designed", j))
    # plaintexts crafted so that the ciphertext drives the Poly1305 limb code through its rare carry / select classes under the one-time key of the
    # (key, nonce) pair: the tag's final reduction, the carry chains, the wrap-around - for keys of full size, through the AEAD interface
    crafted = [] if R.collect else ac.crafted_cases(R, 6 if thorough else 2, "c06")
    for (rounds, key, nonce, aad, pt, cls, otk, macdata) in crafted:
        h1 = ac.one_history(R, rounds, key, nonce, aad, pt, "enc")
        h2 = ac.inc_history(R, rounds, key, nonce, aad, pt, "enc", k_aad=2, k_data=R.rng.choice([1, 2, 3]))
        enc += [h1, h2]
        meta[h1["id"]] = (rounds, key, nonce, aad, pt)
        R.count(("enc-crafted", cls, rounds, len(key), len(aad)))
    res = R.conform("TraceAead", enc, cost=ac.cost_aead, describe=ac.describe, label="TraceAead.enc")
    # phase 2: decrypt what the implementation produced
    dec = []
    for r in res["records"]:
        if r["cls"] != "aead1" or r["ev"][1]["out"]["k"] != "v":
            continue
        rounds, key, nonce, aad, pt = meta[r["id"]]
        o = r["ev"][1]["out"]["v"]
        ct, tag = o[:len(o) - 16], o[len(o) - 16:]
        dec.append(ac.one_history(R, rounds, key, nonce, aad, ct, "dec", tag))
        dec.append(ac.inc_history(R, rounds, key, nonce, aad, ct, "dec", tag, k_aad=R.rng.choice([1, 2, 3]), k_data=R.rng.choice([1, 2, 3])))
        if len(ct) >= 114:                                 # three pieces, the middle one from mid-block across a block end to mid-block, through both decrypt methods
            for mut in (0, 1):
                ev = [{"op": "new"}, {"op": "add_data", "x": 1, "data": aad}, {"op": "to_decryption", "x": 1}]
                for i, (a, b) in enumerate(((0, 10), (10, 80), (80, len(ct)))):
                    ev.append({"op": ("decrypt", "decrypt_mut")[(i + mut) % 2], "x": 1, "data": ct[a:b]})
                ev.append({"op": "finalize", "x": 1, "tag": tag})
                dec.append({"id": R.next_id(), "cls": "aead", "rounds": rounds, "key": key, "nonce": nonce, "ev": ev})
        R.count(("dec", rounds, len(key), len(aad), len(ct)), trivial=(not aad and not ct))
    res2 = R.conform("TraceAead", dec, cost=ac.cost_aead, describe=ac.describe, label="TraceAead.dec")
    ac.confirm_crafted(R, crafted)
    R.rule = ("phase 1: one-shot encrypt + incremental encryption (seeded partitions into <=3 add_data and <=3 encrypt/encrypt_mut calls) per (rounds, key length, |aad|, |pt|) with lengths from "
              "{0,1,15,16,17,63,64,65} (" + ("all 289 pairs of 17 lengths, 3 partitions each, 40 seeded long messages" if thorough else "a covering subset") + " per key length) + rounds 8/12 + seeded long; phase 2: one-shot and incremental decryption "
              "(decrypt / decrypt_mut) of the observed ciphertext and tag; distinct = (phase, rounds, key length, lengths); non-trivial = not both empty")
    for r in res["records"][:2] + res2["records"][:2] + res2["records"][-1:]:
        R.sample({"cls": r["cls"], "rounds": r["rounds"], "keylen": len(r["key"]), "aad_len": len(r.get("aad", [])),
                  "calls": [(e["op"], len(e.get("data", []))) for e in r["ev"]], "last_out": vlib.hexs(r["ev"][-1]["out"]["v"])[:40]})
