"""C01 - every digest equals its standard function on every message.

MC:  the padding case analysis of the three context machines (MDCtx, SpongeCtx, Blake2Ctx) is checked
     exhaustively at small block size: for every message length the blocks compressed are the standard's.
TV:  for every (variant, length) the real crate computes the digest through the one-shot function and
     through Context::finalize / finalize_at; TLC recomputes it with the functional modules."""
import vlib
from props import hashcommon as hc


def lengths_quick(b, lb):
    s = {0, 1, 2 * b - 1, 2 * b, 2 * b + 1}
    for x in range(b - (lb + 1) - 1, b + 2):
        s.add(x)
    return sorted(x for x in s if x >= 0)


def run(R):
    thorough = R.tier == "thorough"
    # ---- design level: padding of every length class, exhaustively, at B = 4
    R.model_check("MDCtx", "MC_MDCtx_pad.cfg", need_actions=["Feed", "Finalize"])
    R.model_check("SpongeCtx", "MC_SpongeCtx_pad_sha3.cfg", need_actions=["Feed", "Finalize"])
    R.model_check("SpongeCtx", "MC_SpongeCtx_pad_keccak.cfg", need_actions=["Feed", "Finalize"])
    R.model_check("Blake2Ctx", "MC_Blake2Ctx_pad.cfg", need_actions=["Feed", "Finalize"])
    # ---- conformance
    hs = []

    def add(base, msg, key):
        h = dict(base)
        h.update({"id": R.next_id(), "cls": "hash"})
        h["ev"] = [{"op": "oneshot", "data": msg}, {"op": "new"}, {"op": "update", "x": 1, "data": msg}, {"op": "finalize", "x": 1}]
        hs.append(h)
        R.count(key, trivial=(len(msg) == 0))

    for alg in hc.FIXED:
        b = hc.block_of(alg)
        lb = hc.MD[alg][1] if alg in hc.MD else 1
        lens = range(0, 4 * b + 2) if thorough else lengths_quick(b, lb)
        stream = vlib.prng_bytes(R.seed, "c01/" + alg, 4 * b + 2)
        for n in lens:
            # both ways of obtaining a context: the algorithm marker (Sha256::new()) and the context's own constructor (Context256::new())
            add({"alg": alg, "ctor": "ctx" if n % 2 else "marker"}, stream[:n], (alg, n))
    # long messages: one variant per compression function, seeded lengths up to 64 KiB (thorough) / 4 KiB (quick)
    for alg in ["sha256", "sha512", "sha1", "ripemd160", "sha3_256", "keccak512"]:
        n = R.rng.randrange(40000, 65537) if thorough else R.rng.randrange(2000, 4097)
        add({"alg": alg}, vlib.prng_bytes(R.seed, "c01long/" + alg, n), (alg, n))
    # very long messages: what distinguishes them is the length field of the padding; the processed-bytes count is preset through the hook
    # next to the points where the bit length crosses a word (a 512 MiB message cannot be recomputed by TLC)
    for alg in hc.MD:
        b, lb = hc.MD[alg][0], hc.MD[alg][1]
        offs = [(1 << 29) - b, 1 << 29, (1 << 32) - 1, (1 << 61) - 2 * b] + ([(1 << 64) - 1, (1 << 125) - 3 * b] if lb == 16 else [])
        for oi, off in enumerate(offs if thorough else offs[R.seed % 2::2]):
            n = (0, 1, b - lb, b + 1)[oi % 4]
            h = {"id": R.next_id(), "cls": "hash", "alg": alg,
                 "ev": [{"op": "new"}, {"op": "set_length", "x": 1, "off": list(off.to_bytes(16, "little"))}, {"op": "update", "x": 1, "data": vlib.prng_bytes(R.seed, "c01off/" + alg, n)},
                        {"op": "finalize", "x": 1}]}
            hs.append(h)
            R.count((alg, "preset-length", off.bit_length(), n))
    # BLAKE2: (outlen, keylen) grid
    for alg in ["blake2b", "blake2s"]:
        b, mo, mk = hc.BLAKE[alg]
        if thorough:
            pairs = [(o, k) for o in range(1, mo + 1) for k in range(0, mk + 1)]
            msglens = [0, 1, b, b + 1]
        else:
            pairs = {(1, 0), (1, mk), (mo, 0), (mo, mk), (mo, 1), (1, 1), (mo // 2, mk // 2)}
            while len(pairs) < 75:
                pairs.add((R.rng.randrange(1, mo + 1), R.rng.randrange(0, mk + 1)))
            pairs = sorted(pairs)
            msglens = None
        keys = vlib.prng_bytes(R.seed, "c01key/" + alg, mk)
        # the empty message under a key (the key block is then the last block), through every construction path
        for (o, k) in ((mo, mk), (mo, 1), (1, mk), (20, 16)):
            for api in ("dyn", "const"):
                add({"alg": alg, "api": api, "outlen": o, "key": keys[:k], "ctor": "marker" if (api == "const" and k == 1) else "ctx"}, [], (alg, o, k, 0, "keyed-empty", api))
        for (o, k) in pairs:
            for n in (msglens if msglens is not None else [R.rng.choice([0, 1, b - 1, b, b + 1, 2 * b, 2 * b + 1, 3 * b + 5])]):
                msg = vlib.prng_bytes(R.seed, "c01/%s/%d/%d" % (alg, o, k), n)
                api = "const" if (o + k + n) % 3 == 0 else "dyn"
                add({"alg": alg, "api": api, "outlen": o, "key": keys[:k], "ctor": "marker" if (o + n) % 2 else "ctx"}, msg, (alg, o, k, n))
        # the fixed-size one-shot functions and array-returning finalize, all lengths around the block
        for o in ([28, 32, 48, 64] if alg == "blake2b" else [28, 32]):
            for n in (range(0, 2 * b + 2) if thorough else [0, 1, b - 1, b, b + 1, 2 * b, 2 * b + 1]):
                add({"alg": alg, "api": "const", "outlen": o, "key": [], "ctor": "marker" if n % 2 else "ctx"}, vlib.prng_bytes(R.seed, "c01f/%s/%d" % (alg, o), n), (alg, o, 0, n, "fixed"))
        # output sizes that are not a whole number of bytes (the const-generic contexts take BITS): fresh contexts, keyed and not
        for bits in ((1, 7, 9, 250, 505, 511) if alg == "blake2b" else (1, 7, 9, 250, 255)):
            for k in (0, 1, mk):
                for n in ((0, 3, b + 1) if thorough or k == 0 else (3,)):
                    h = {"id": R.next_id(), "cls": "hash", "alg": alg, "api": "const", "bits": bits, "key": keys[:k], "keyed": k > 0, "ctor": "marker" if (bits + k) % 2 else "ctx",
                         "ev": [{"op": "new"}, {"op": "update", "x": 1, "data": vlib.prng_bytes(R.seed, "c01bits/%s/%d" % (alg, bits), n)}, {"op": "finalize_at", "x": 1, "n": (bits + 7) // 8}]}
                    hs.append(h)
                    R.count((alg, "bits", bits, k, n))
    # the legacy digest objects (cryptoxide::sha2::Sha256 ... - wrappers around the contexts, one per variant): input + result, two lengths each
    legacy = []
    for alg in hc.FIXED:
        b = hc.block_of(alg)
        for n in (3, b + 1):
            legacy.append({"id": R.next_id(), "cls": "digest", "alg": alg,
                           "ev": [{"op": "new"}, {"op": "input", "x": 1, "data": vlib.prng_bytes(R.seed, "c01leg/" + alg, n)}, {"op": "result", "x": 1}]})
            R.count((alg, "legacy-object", n))
    for alg, (b, mo, mk) in hc.BLAKE.items():
        for o, k in ((mo, 0), (20, 0), (mo, mk), (1, 3)):
            legacy.append({"id": R.next_id(), "cls": "digest", "alg": alg, "outlen": o, "key": vlib.prng_bytes(R.seed, "c01legk/" + alg, k),
                           "ev": [{"op": "new"}, {"op": "input", "x": 1, "data": vlib.prng_bytes(R.seed, "c01leg/" + alg, b + 1)}, {"op": "result", "x": 1}]})
            R.count((alg, "legacy-object", o, k))
    R.rule = ("one history per (variant, message): one-shot function + Context::update/finalize; fixed variants x lengths "
              + ("0..4*block+1" if thorough else "{0,1,block-LB-2..block+1,2*block-1..2*block+1}") +
              "; BLAKE2 (outlen,keylen) " + ("full grid x msg lengths {0,1,B,B+1}" if thorough else "corners + seeded sample of 75 pairs") +
              "; distinct = (variant[,outlen,keylen],length); non-trivial = message not empty")
    res = R.conform("TraceHash", hs, cost=hc.cost_hash, describe=lambda r, v: {"cls": "hash", "alg": r["alg"], "op": r["ev"][v[1] - 1]["op"]},
                    timeout=3000 if thorough else 900)
    from props import maccommon as mc
    R.conform("TraceMac", legacy, cost=mc.cost_mac, describe=mc.describe, label="TraceMac.legacy")
    for r in [x for x in res["records"] if x["ev"][0]["op"] == "oneshot"][:3] + [x for x in res["records"] if x["ev"][0]["op"] == "oneshot"][-2:]:
        R.sample({"alg": r["alg"], "msg_len": len(r["ev"][0]["data"]), "outlen": r.get("outlen"), "keylen": len(r.get("key", [])),
                  "oneshot_digest": vlib.hexs(r["ev"][0]["out"]["v"]), "verdict": res["verdicts"][r["id"]][0]})
    R.assumptions += ["TLC and the CommunityModules Java overrides evaluate the functional modules correctly (guarded by SpecKAT at setup)",
                      "message contents are seeded samples; exhaustiveness is over variants, lengths and BLAKE2 parameters"]
