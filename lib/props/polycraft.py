"""Input crafting for the Poly1305 limb code (C05, C09): keys with r = r0 < 2^26 (all other limbs of r zero), for which the
pre-carry accumulator of a one-block message is exactly V = (m + 2^128) * r0, so that the limb state the final carry chain
starts from can be chosen digit by digit.  Input selection only: no expected tag is computed here - TLC confirms the
class each input reaches (Poly1305Donna.tla) and recomputes every tag (Poly1305.tla)."""
P130 = (1 << 130) - 5
M26 = (1 << 26) - 1


def _key(r0, s):
    return list(r0.to_bytes(4, "little")) + [0] * 12 + list(s)


def _finish(r0, V, s):
    """(key, message) for pre-carry accumulator V = h * r0 with h in [2^128, 2^129), or None"""
    if V % r0:
        return None
    h = V // r0
    if not (1 << 128) <= h < (1 << 129):
        return None
    return _key(r0, s), list((h - (1 << 128)).to_bytes(16, "little"))


def _finish2(r0, V, s, rng):
    """two blocks: a random first block, then the block that brings the pre-carry accumulator to V = (a1 + m2 + 2^128) * r0, where a1 is
    the integer value of the limb state the first block leaves ((V1 mod 2^130) + 5 * (V1 >> 130))"""
    if V % r0:
        return None
    h2 = V // r0
    for _ in range(64):
        m1 = rng.randrange(1 << 128)
        V1 = (m1 + (1 << 128)) * r0
        a1 = (V1 & ((1 << 130) - 1)) + 5 * (V1 >> 130)
        m2 = h2 - a1 - (1 << 128)
        if 0 <= m2 < (1 << 128):
            return _key(r0, s), list(m1.to_bytes(16, "little")) + list(m2.to_bytes(16, "little"))
    return None


def _solve_q(r0, K):
    """q with r0 | q * p + K"""
    return (-K * pow(P130, -1, r0)) % r0


def craft(cls, rng, tries=200000):
    """one (key, msg) of class `cls`.  Notation: after block(), V = D + q * 2^130 with 26-bit digits d0..d4 of D;
    h0 = (d0 + 5q) mod 2^26, h1 = d1 + ((d0 + 5q) >> 26), h2..h4 = d2..d4."""
    s = [rng.randrange(256) for _ in range(16)]
    for _ in range(tries):
        r0 = rng.randrange(1 << 20, 1 << 26) | 1
        if cls == "fin_h0_carry_h1_odd":
            # as fin_h0_carry, but block() leaves h1 = 2^26 + 1 (carry 2 out of h0), so that after the chain the low bit of h1 is set when the
            # last carry out of h0 arrives: d0 + 5q = 3 * 2^26 - t
            t = rng.randrange(1, 6)
            r0 = rng.randrange(int(0.8 * (1 << 26)), 1 << 26) | 1
            K = (1 << 130) + (1 << 27) - t
            q = _solve_q(r0, K)
            d0 = 3 * (1 << 26) - t - 5 * q
            if not 0 <= d0 <= M26:
                continue
            V = q * P130 + K
        elif cls in ("fin_h0_carry", "fin_wrap_only"):
            # d1..d4 all ones, d0 + 5q = 2^27 - t: h1 = 2^26 after block, the chain carries through h2, h3, h4, wraps into h0;
            # t in 1..5 makes h0 overflow once more (the last carry of finish), larger t does not
            t = rng.randrange(1, 6) if cls == "fin_h0_carry" else rng.randrange(6, 4000)
            K = (1 << 130) + (1 << 26) - t
            q = _solve_q(r0, K)
            d0 = (1 << 27) - t - 5 * q
            if not 0 <= d0 <= M26:
                continue
            V = q * P130 + K
        elif cls in ("chain1", "chain2", "chain3"):
            # h1 = 2^26 after block (d1 all ones, d0 + 5q >= 2^26); the carry runs through 1, 2 or 3 further all-ones limbs and stops
            n = int(cls[-1])
            q = rng.randrange(r0 // 4 + 1, r0 // 2)
            d = [None, M26] + [M26 if 2 <= k < 2 + n - 1 else None for k in range(2, 5)]
            # the limb where the chain stops: odd for chain1 (an OR instead of an addition there would show), anything but all ones
            stop = 1 + n
            for k in range(2, 5):
                if d[k] is None:
                    d[k] = rng.randrange(0, M26) | (1 if k == stop else 0)
            if d[stop] == M26:
                d[stop] -= 2
            A = sum(d[k] << (26 * k) for k in range(1, 5)) + (q << 130)
            lo, hi = max(0, (1 << 26) - 5 * q), 1 << 26
            x = lo + ((-A - lo) % r0)
            if x >= hi:
                continue
            V = A + x
        elif cls in ("acc_p_minus_1", "acc_p", "acc_p_plus_1", "acc_2_130_minus_1", "acc_2_130", "acc_2_130_plus_4", "acc_small"):
            # fully carried accumulator W (an integer) just around p and 2^130: V = q * p + W
            W = {"acc_p_minus_1": P130 - 1, "acc_p": P130, "acc_p_plus_1": P130 + 1, "acc_2_130_minus_1": (1 << 130) - 1, "acc_2_130": 1 << 130,
                 "acc_2_130_plus_4": (1 << 130) + 4, "acc_small": rng.randrange(0, 6)}[cls]
            if cls in ("acc_p", "acc_small"):
                # not reachable with one block (it would need h * r0 = 0 mod p): two blocks
                q = _solve_q(r0, W) + r0 * rng.randrange(0, 2)
                if W - 5 * q < 0 and cls != "acc_p":
                    continue
                r = _finish2(r0, q * P130 + W, s, rng)
                if r:
                    return r
                continue
            q = _solve_q(r0, W)
            if W - 5 * q < 0:
                continue
            V = q * P130 + W
        elif cls == "max_carry":
            # the largest products: r0 and the block near their maxima
            r0 = (1 << 26) - 1 - 2 * rng.randrange(0, 8)
            V = r0 * ((1 << 129) - 1 - rng.randrange(0, 1 << 20))
        else:
            raise ValueError(cls)
        r = _finish(r0, V, s)
        if r:
            return r
    return None


CLASSES = ["fin_h0_carry", "fin_h0_carry_h1_odd", "fin_wrap_only", "chain1", "chain2", "chain3", "acc_p_minus_1", "acc_p", "acc_p_plus_1", "acc_2_130_minus_1", "acc_2_130",
           "acc_2_130_plus_4", "max_carry"]


# ---------------------------------------------------------------------------------------------------------------------------------------
# Any key (r of full size): a Python model of the limb code (mirrors Poly1305Donna.tla; input selection only) and backward solving through the
# blocks.  The integer value of the limb state after a block is (S mod 2^130) + 5 * (S >> 130) with S = sum x_i * rho_i congruent to X * r
# (X the integer value of state + block); it equals the residue w or w + p, and is w + p exactly when w is below five times the quotient -
# so a final accumulator in [p, 2^130 + 2^30) is reached by choosing the residue small, for whatever r the key gives.
class Donna:
    def __init__(self, key):
        t = int.from_bytes(bytes(key[:16]), "little")
        self.r = [t & 0x3ffffff, (t >> 26) & 0x3ffff03, (t >> 52) & 0x3ffc0ff, (t >> 78) & 0x3f03fff, (t >> 104) & 0x00fffff]
        self.rint = sum(x << (26 * i) for i, x in enumerate(self.r))
        self.pad = int.from_bytes(bytes(key[16:32]), "little")
        self.h = [0] * 5
        self.cov = set()

    def value(self):
        return sum(x << (26 * i) for i, x in enumerate(self.h))

    def block(self, m, hibit=1):
        t = int.from_bytes(bytes(m), "little")
        h = [self.h[i] + ((t >> (26 * i)) & M26) for i in range(4)] + [self.h[4] + (t >> 104) + (hibit << 24)]
        r = self.r
        s = [0] + [5 * x for x in r[1:]]
        d = [h[0] * r[0] + h[1] * s[4] + h[2] * s[3] + h[3] * s[2] + h[4] * s[1],
             h[0] * r[1] + h[1] * r[0] + h[2] * s[4] + h[3] * s[3] + h[4] * s[2],
             h[0] * r[2] + h[1] * r[1] + h[2] * r[0] + h[3] * s[4] + h[4] * s[3],
             h[0] * r[3] + h[1] * r[2] + h[2] * r[1] + h[3] * r[0] + h[4] * s[4],
             h[0] * r[4] + h[1] * r[3] + h[2] * r[2] + h[3] * r[1] + h[4] * r[0]]
        c = d[0] >> 26
        o = [d[0] & M26]
        for k in range(1, 5):
            e = d[k] + c
            o.append(e & M26)
            c = e >> 26
        if c:
            self.cov.add("blk_wrap")
        f0 = o[0] + 5 * c
        o[0] = f0 & M26
        if f0 >> 26:
            self.cov.add("blk_h0_carry")
        o[1] += f0 >> 26
        if o[1] >> 26:
            self.cov.add("blk_h1_unnormalised")
        self.h = o

    def mac(self, msg):
        n = len(msg) // 16
        for k in range(n):
            self.block(msg[16 * k:16 * k + 16])
        if len(msg) % 16:
            self.block(list(msg[16 * n:]) + [1] + [0] * (15 - len(msg) % 16), 0)
        return self.finish_cov()

    def finish_cov(self):
        h = list(self.h)
        cov = set(self.cov)
        c = h[1] >> 26; h[1] &= M26
        if c: cov.add("fin_c1")
        h[2] += c; c = h[2] >> 26; h[2] &= M26
        if c: cov.add("fin_c2")
        h[3] += c; c = h[3] >> 26; h[3] &= M26
        if c: cov.add("fin_c3")
        h[4] += c; c = h[4] >> 26; h[4] &= M26
        if c: cov.add("fin_wrap")
        a1 = h[1]
        h[0] += 5 * c; c = h[0] >> 26; h[0] &= M26
        if c:
            cov.add("fin_h0_carry")
            if a1 & 1: cov.add("fin_h0_carry_h1_odd")
        h[1] += c
        v = sum(x << (26 * i) for i, x in enumerate(h))
        cov.add("sel_ge_p" if v >= P130 else "sel_lt_p")
        t = (v - P130 if v >= P130 else v) & ((1 << 128) - 1)
        for k in range(1, 4):
            lo = (1 << (32 * k)) - 1
            if (t & lo) + (self.pad & lo) > lo and (((t >> (32 * k)) + (self.pad >> (32 * k))) & 0xffffffff) == 0xffffffff:
                cov.add("pad_carry_into_saturated")
        return cov


def _pad_carry_target(rng, pad):
    """a final accumulator whose low 128 bits make the closing 128-bit addition of the pad carry into a word whose sum is already 0xffffffff"""
    k = rng.randrange(1, 4)
    sw = [(pad >> (32 * i)) & 0xffffffff for i in range(4)]
    w = [rng.getrandbits(32) for _ in range(4)]
    w[k] = 0xffffffff - sw[k]
    w[k - 1] = ((1 << 32) - sw[k - 1] + rng.randrange(0, 1 << 16)) & 0xffffffff if sw[k - 1] else w[k - 1]
    return sum(x << (32 * i) for i, x in enumerate(w)) + (rng.randrange(0, 3) << 128)


GENERIC_CLASSES = {
    # name: (final accumulator family, required classes, forbidden classes)
    "g_acc_p": (lambda rng: P130 + rng.randrange(0, 5), {"sel_ge_p"}, {"fin_wrap"}),
    "g_wrap": (lambda rng: (1 << 130) + rng.randrange(0, 2000), {"fin_wrap", "sel_lt_p"}, {"fin_h0_carry"}),
    "g_h0_carry": (lambda rng: (1 << 130) + (1 << 26) - rng.randrange(1, 6), {"fin_wrap", "fin_h0_carry"}, set()),
    "g_h0_carry_h1_odd": (lambda rng: (1 << 130) + (1 << 27) - rng.randrange(1, 6), {"fin_wrap", "fin_h0_carry_h1_odd"}, set()),
    "g_chain1": (lambda rng: (rng.getrandbits(76) << 52) | (rng.randrange(1, 1 << 25) << 52) | (rng.randrange(0, 3) << 26) | rng.getrandbits(26), {"fin_c1"}, {"fin_c2"}),
    "g_chain2": (lambda rng: (rng.getrandbits(50) << 78) | (rng.randrange(1, 1 << 25) << 78) | (rng.randrange(0, 3) << 26) | rng.getrandbits(26), {"fin_c1", "fin_c2"}, {"fin_c3"}),
    "g_chain3": (lambda rng: (rng.randrange(1, 1 << 25) << 104) | (rng.randrange(0, 3) << 26) | rng.getrandbits(26), {"fin_c1", "fin_c2", "fin_c3"}, {"fin_wrap"}),
    "g_below_p": (lambda rng: P130 - rng.randrange(1, 4), {"sel_lt_p"}, {"fin_wrap"}),
    "g_pad_carry": (_pad_carry_target, {"pad_carry_into_saturated"}, set()),
}


def craft_generic(cls, key, prefix, tail, rng, tries=400, randomise=True):
    """a 16-byte block C (and, with `randomise`, a preceding random block) such that the MAC input prefix || [random block] || C || tail drives the limb
    code's final state into class `cls` under the given 32-byte key; prefix and tail are whole 16-byte blocks.  Returns the blocks to insert or None."""
    fam, need, forbid = GENERIC_CLASSES[cls]
    base = Donna(key)
    if base.rint == 0:
        return None
    rinv = pow(base.rint, -1, P130)
    tb = [int.from_bytes(bytes(tail[16 * k:16 * k + 16]), "little") + (1 << 128) for k in range(len(tail) // 16)]
    for _ in range(tries):
        extra = [rng.randrange(256) for _ in range(16)] if randomise else []
        d = Donna(key)
        for k in range(len(prefix) // 16):
            d.block(prefix[16 * k:16 * k + 16])
        if extra:
            d.block(extra)
        hprev = d.value()
        target = final = fam(rng, base.pad) if cls == "g_pad_carry" else fam(rng)
        for b in reversed(tb):                             # state before a tail block: target * r^-1 - block (mod p), as a non-negative integer
            target = (target * rinv - b) % P130
        y0 = target * rinv % P130
        for y in (y0, y0 + P130):
            c = y - hprev - (1 << 128)
            if 0 <= c < (1 << 128):
                blk = list(c.to_bytes(16, "little"))
                dd = Donna(key)
                cov = dd.mac(list(prefix) + extra + blk + list(tail))
                if dd.value() == final and need <= cov and not (forbid & cov):
                    return extra + blk
    return None
