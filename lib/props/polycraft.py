"""Input crafting for the Poly1305 limb code (C05, C09): keys with r = r0 < 2^26 (all other limbs of r zero), for which the
pre-carry accumulator of a one-block message is exactly V = (m + 2^128) * r0, so that the limb state the final carry chain
starts from can be chosen digit by digit.  Input selection only: no expected tag is computed here - TLC confirms the
class each input reaches (Poly1305Donna.tla) and recomputes every tag (Poly1305.tla)."""
P130 = (1 << 130) - 5
M26 = (1 << 26) - 1


def _key(r0, s):
    return list(r0.to_bytes(4, "little")) + [0] * 12 + list(s)


def _finish(r0, V, s):
    """(key, message) for pre-carry accumulator V = h * r0 with h in [2^128, 2^129), or None"""
    if V % r0:
        return None
    h = V // r0
    if not (1 << 128) <= h < (1 << 129):
        return None
    return _key(r0, s), list((h - (1 << 128)).to_bytes(16, "little"))


def _finish2(r0, V, s, rng):
    """two blocks: a random first block, then the block that brings the pre-carry accumulator to V = (a1 + m2 + 2^128) * r0, where a1 is
    the integer value of the limb state the first block leaves ((V1 mod 2^130) + 5 * (V1 >> 130))"""
    if V % r0:
        return None
    h2 = V // r0
    for _ in range(64):
        m1 = rng.randrange(1 << 128)
        V1 = (m1 + (1 << 128)) * r0
        a1 = (V1 & ((1 << 130) - 1)) + 5 * (V1 >> 130)
        m2 = h2 - a1 - (1 << 128)
        if 0 <= m2 < (1 << 128):
            return _key(r0, s), list(m1.to_bytes(16, "little")) + list(m2.to_bytes(16, "little"))
    return None


def _solve_q(r0, K):
    """q with r0 | q * p + K"""
    return (-K * pow(P130, -1, r0)) % r0


def craft(cls, rng, tries=200000):
    """one (key, msg) of class `cls`.  Notation: after block(), V = D + q * 2^130 with 26-bit digits d0..d4 of D;
    h0 = (d0 + 5q) mod 2^26, h1 = d1 + ((d0 + 5q) >> 26), h2..h4 = d2..d4."""
    s = [rng.randrange(256) for _ in range(16)]
    for _ in range(tries):
        r0 = rng.randrange(1 << 20, 1 << 26) | 1
        if cls == "fin_h0_carry_h1_odd":
            # as fin_h0_carry, but block() leaves h1 = 2^26 + 1 (carry 2 out of h0), so that after the chain the low bit of h1 is set when the
            # last carry out of h0 arrives: d0 + 5q = 3 * 2^26 - t
            t = rng.randrange(1, 6)
            r0 = rng.randrange(int(0.8 * (1 << 26)), 1 << 26) | 1
            K = (1 << 130) + (1 << 27) - t
            q = _solve_q(r0, K)
            d0 = 3 * (1 << 26) - t - 5 * q
            if not 0 <= d0 <= M26:
                continue
            V = q * P130 + K
        elif cls in ("fin_h0_carry", "fin_wrap_only"):
            # d1..d4 all ones, d0 + 5q = 2^27 - t: h1 = 2^26 after block, the chain carries through h2, h3, h4, wraps into h0;
            # t in 1..5 makes h0 overflow once more (the last carry of finish), larger t does not
            t = rng.randrange(1, 6) if cls == "fin_h0_carry" else rng.randrange(6, 4000)
            K = (1 << 130) + (1 << 26) - t
            q = _solve_q(r0, K)
            d0 = (1 << 27) - t - 5 * q
            if not 0 <= d0 <= M26:
                continue
            V = q * P130 + K
        elif cls in ("chain1", "chain2", "chain3"):
            # h1 = 2^26 after block (d1 all ones, d0 + 5q >= 2^26); the carry runs through 1, 2 or 3 further all-ones limbs and stops
            n = int(cls[-1])
            q = rng.randrange(r0 // 4 + 1, r0 // 2)
            d = [None, M26] + [M26 if 2 <= k < 2 + n - 1 else None for k in range(2, 5)]
            # the limb where the chain stops: odd for chain1 (an OR instead of an addition there would show), anything but all ones
            stop = 1 + n
            for k in range(2, 5):
                if d[k] is None:
                    d[k] = rng.randrange(0, M26) | (1 if k == stop else 0)
            if d[stop] == M26:
                d[stop] -= 2
            A = sum(d[k] << (26 * k) for k in range(1, 5)) + (q << 130)
            lo, hi = max(0, (1 << 26) - 5 * q), 1 << 26
            x = lo + ((-A - lo) % r0)
            if x >= hi:
                continue
            V = A + x
        elif cls in ("acc_p_minus_1", "acc_p", "acc_p_plus_1", "acc_2_130_minus_1", "acc_2_130", "acc_2_130_plus_4", "acc_small"):
            # fully carried accumulator W (an integer) just around p and 2^130: V = q * p + W
            W = {"acc_p_minus_1": P130 - 1, "acc_p": P130, "acc_p_plus_1": P130 + 1, "acc_2_130_minus_1": (1 << 130) - 1, "acc_2_130": 1 << 130,
                 "acc_2_130_plus_4": (1 << 130) + 4, "acc_small": rng.randrange(0, 6)}[cls]
            if cls in ("acc_p", "acc_small"):
                # not reachable with one block (it would need h * r0 = 0 mod p): two blocks
                q = _solve_q(r0, W) + r0 * rng.randrange(0, 2)
                if W - 5 * q < 0 and cls != "acc_p":
                    continue
                r = _finish2(r0, q * P130 + W, s, rng)
                if r:
                    return r
                continue
            q = _solve_q(r0, W)
            if W - 5 * q < 0:
                continue
            V = q * P130 + W
        elif cls == "max_carry":
            # the largest products: r0 and the block near their maxima
            r0 = (1 << 26) - 1 - 2 * rng.randrange(0, 8)
            V = r0 * ((1 << 129) - 1 - rng.randrange(0, 1 << 20))
        else:
            raise ValueError(cls)
        r = _finish(r0, V, s)
        if r:
            return r
    return None


CLASSES = ["fin_h0_carry", "fin_h0_carry_h1_odd", "fin_wrap_only", "chain1", "chain2", "chain3", "acc_p_minus_1", "acc_p", "acc_p_plus_1", "acc_2_130_minus_1", "acc_2_130",
           "acc_2_130_plus_4", "max_carry"]
