"""Script construction for the AEAD properties (C06, C07)."""
import vlib


def cost_aead(rec):
    c = 1.0
    for e in rec.get("ev", []):
        n = len(e.get("data", []))
        c += 0.2 * n + (12 if e["op"] in ("finalize", "encrypt", "decrypt") else 0)
    c += 0.05 * len(rec.get("aad", []))
    return c


def split(R, n, k):
    """cut 0..n into <= k pieces (possibly empty ones)"""
    cuts = sorted(R.rng.randrange(0, n + 1) for _ in range(k - 1)) if n or k > 1 else []
    pts = [0] + cuts + [n]
    return [(pts[i], pts[i + 1]) for i in range(len(pts) - 1)]


def inc_history(R, rounds, key, nonce, aad, data, mode, tag=None, k_aad=2, k_data=3):
    """incremental interface: mode 'enc' or 'dec' (data = plaintext resp. ciphertext)"""
    ev = [{"op": "new"}]
    for a, b in split(R, len(aad), k_aad):
        ev.append({"op": "add_data", "x": 1, "data": aad[a:b]})
    ev.append({"op": "to_encryption" if mode == "enc" else "to_decryption", "x": 1})
    for i, (a, b) in enumerate(split(R, len(data), k_data)):
        op = ("encrypt", "encrypt_mut") if mode == "enc" else ("decrypt", "decrypt_mut")
        ev.append({"op": op[(i + len(data)) % 2], "x": 1, "data": data[a:b]})
    f = {"op": "finalize", "x": 1}
    if mode == "dec":
        f["tag"] = tag
    ev.append(f)
    return {"id": R.next_id(), "cls": "aead", "rounds": rounds, "key": key, "nonce": nonce, "ev": ev}


def one_history(R, rounds, key, nonce, aad, data, mode, tag=None):
    e = {"op": "encrypt", "data": data} if mode == "enc" else {"op": "decrypt", "data": data, "tag": tag}
    return {"id": R.next_id(), "cls": "aead1", "rounds": rounds, "key": key, "nonce": nonce, "aad": aad, "ev": [{"op": "new"}, e]}


def describe(r, v):
    e = r["ev"][v[1] - 1]
    return {"cls": r["cls"], "op": e["op"], "rounds": r["rounds"], "keylen": len(r["key"])}


def crafted_cases(R, per_class, label):
    """AEAD inputs whose ciphertext drives the Poly1305 limb code into its rare carry / select classes (polycraft.GENERIC_CLASSES) under the one-time
    key the (key, nonce) pair gives.  The one-time key and the keystream are read off the crate's own ChaCha (input selection only: every result is
    judged by TLC, and TLC confirms the class each crafted input reaches).  Returns [(rounds, key, nonce, aad, pt, class, one-time key, MAC input)]."""
    from props import polycraft
    plans = []
    for cls in polycraft.GENERIC_CLASSES:
        for j in range(per_class):
            rounds = 20 if j % 3 != 2 else (8, 12)[(j // 3) % 2]
            kl = 32 if (j + len(plans)) % 2 == 0 else 16
            tag = "%s/%s/%d" % (label, cls, j)
            plans.append((cls, rounds, vlib.prng_bytes(R.seed, "ackey/" + tag, kl), vlib.prng_bytes(R.seed, "acnonce/" + tag, 12),
                          vlib.prng_bytes(R.seed, "acaad/" + tag, (0, 5, 16, 33)[(j + len(cls)) % 4]), (0, 16, 3)[j % 3]))
    hs = [{"id": "ks%d" % i, "cls": "stream", "variant": "ietf", "rounds": rounds, "key": key, "nonce": nonce,
           "ev": [{"op": "new"}, {"op": "process", "x": 1, "data": [0] * (64 + 64)}]} for i, (cls, rounds, key, nonce, aad, lead) in enumerate(plans)]
    recs = R.drive_on(hs, "rel", "craft." + label)
    out = []
    for (cls, rounds, key, nonce, aad, lead), r in zip(plans, recs):
        o = r["ev"][1]["out"]
        if o["k"] != "v" or len(o["v"]) != 128:
            continue
        otk, ks = o["v"][:32], o["v"][64:]
        # ciphertext = lead bytes (0, 16 or 3: the last makes the crafted blocks straddle ... no: keeps them block-aligned only when lead % 16 == 0)
        lead = lead if lead % 16 == 0 else 0
        leadct = vlib.prng_bytes(R.seed, "aclead/%s" % cls, lead)
        n = lead + 32
        lens = list(len(aad).to_bytes(8, "little")) + list(n.to_bytes(8, "little"))
        prefix = list(aad) + [0] * ((16 - len(aad) % 16) % 16) + leadct
        blocks = polycraft.craft_generic(cls, otk, prefix, lens, R.rng)
        if blocks is None:
            continue
        ct = leadct + blocks
        pt = [c ^ k for c, k in zip(ct, ks)]
        out.append((rounds, key, nonce, aad, pt, cls, otk, prefix + blocks + lens))
    return out


def confirm_crafted(R, crafted):
    """TLC evaluates the transcribed limb code (Poly1305Donna.tla) on the MAC input of every crafted case: it must refine RFC 8439 there, and the classes
    must really be reached (vacuity guard; skipped when the run already has violations, e.g. because the cipher the inputs were derived from is wrong)"""
    if not crafted or R.collect:
        return
    pool = [{"id": R.next_id(), "ev": [{"op": "mac", "key": otk, "data": md, "out": {"k": "v", "v": []}}]} for (_, _, _, _, _, _, otk, md) in crafted]
    extras = R.model_eval("Poly1305Donna", pool, "donna", cost=lambda r: 1 + len(r["ev"][0]["data"]) / 16.0)
    cov = {}
    for v in extras:
        if v[0] == "COV":
            for c in v[2]:
                cov[c] = cov.get(c, 0) + 1
    R.extra["donna_branch_classes_via_aead"] = cov
    missing = [c for c in ("fin_c1", "fin_c2", "fin_c3", "fin_wrap", "fin_h0_carry", "fin_h0_carry_h1_odd", "sel_ge_p", "sel_lt_p", "pad_carry_into_saturated") if not cov.get(c)]
    if missing and not R.violations:
        raise vlib.ToolError("vacuous run: no crafted AEAD input reaches the limb-code branches %s" % missing)
