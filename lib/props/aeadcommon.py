"""Script construction for the AEAD properties (C06, C07)."""
import vlib


def cost_aead(rec):
    c = 1.0
    for e in rec.get("ev", []):
        n = len(e.get("data", []))
        c += 0.2 * n + (12 if e["op"] in ("finalize", "encrypt", "decrypt") else 0)
    c += 0.05 * len(rec.get("aad", []))
    return c


def split(R, n, k):
    """cut 0..n into <= k pieces (possibly empty ones)"""
    cuts = sorted(R.rng.randrange(0, n + 1) for _ in range(k - 1)) if n or k > 1 else []
    pts = [0] + cuts + [n]
    return [(pts[i], pts[i + 1]) for i in range(len(pts) - 1)]


def inc_history(R, rounds, key, nonce, aad, data, mode, tag=None, k_aad=2, k_data=3):
    """incremental interface: mode 'enc' or 'dec' (data = plaintext resp. ciphertext)"""
    ev = [{"op": "new"}]
    for a, b in split(R, len(aad), k_aad):
        ev.append({"op": "add_data", "x": 1, "data": aad[a:b]})
    ev.append({"op": "to_encryption" if mode == "enc" else "to_decryption", "x": 1})
    for i, (a, b) in enumerate(split(R, len(data), k_data)):
        op = ("encrypt", "encrypt_mut") if mode == "enc" else ("decrypt", "decrypt_mut")
        ev.append({"op": op[(i + len(data)) % 2], "x": 1, "data": data[a:b]})
    f = {"op": "finalize", "x": 1}
    if mode == "dec":
        f["tag"] = tag
    ev.append(f)
    return {"id": R.next_id(), "cls": "aead", "rounds": rounds, "key": key, "nonce": nonce, "ev": ev}


def one_history(R, rounds, key, nonce, aad, data, mode, tag=None):
    e = {"op": "encrypt", "data": data} if mode == "enc" else {"op": "decrypt", "data": data, "tag": tag}
    return {"id": R.next_id(), "cls": "aead1", "rounds": rounds, "key": key, "nonce": nonce, "aad": aad, "ev": [{"op": "new"}, e]}


def describe(r, v):
    e = r["ev"][v[1] - 1]
    return {"cls": r["cls"], "op": e["op"], "rounds": r["rounds"], "keylen": len(r["key"])}
