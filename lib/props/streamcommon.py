"""Script construction for the stream-cipher properties (C03, C04, C16, C20)."""
import vlib
from props import hashcommon as hc

VARIANTS = {  # name: (nonce length, key lengths, 64-bit counter)
    "ietf": (12, (16, 32), False), "xchacha": (24, (32,), False), "original": (8, (16, 32), True),
    "salsa": (8, (16, 32), True), "xsalsa": (24, (32,), True)}
ROUNDS = (8, 12, 20)


def limbs(n):
    return [(n >> (16 * i)) & 0xffff for i in range(4)]


def base(R, variant, rounds, keylen, tag):
    nl = VARIANTS[variant][0]
    return {"cls": "stream", "variant": variant, "rounds": rounds, "key": vlib.prng_bytes(R.seed, "skey/" + tag, keylen),
            "nonce": vlib.prng_bytes(R.seed, "snonce/" + tag, nl)}


def cost_stream(rec):
    c = 1.0
    for e in rec.get("ev", []):
        n = len(e.get("data", e.get("prior", []))) or e.get("n", 0) or 0
        if e["op"] in ("process", "process_mut", "bytes", "fill_bytes", "fill_slice", "u32", "u64", "block", "hchacha"):
            c += 10 * (1 + n // 64) + 0.01 * n
    return c


def concretise(R, h, b, M, tag):
    """behaviour of StreamCtx (GEN) -> script; model counter value M-1 maps to 2^32-1"""
    hid = R.next_id()
    rec = dict(b)
    rec["id"] = hid
    stream = vlib.prng_bytes(R.seed, "sdata/%s/%d" % (tag, hid), 2048)
    pos = 0
    ev = [{"op": "new"}]

    def real(v, hi=False):
        if v == M - 1:
            return 7 if hi else 0xffffffff
        return v
    for e in h:
        op = e["op"]
        if op in ("process", "process_mut"):
            ev.append({"op": op, "x": e["x"], "data": stream[pos:pos + e["len"]]})
            pos += e["len"]
        elif op == "seek":
            ev.append({"op": "seek", "x": e["x"], "block": limbs(real(e["block"]))})
        elif op == "set_counter":
            ev.append({"op": "set_counter", "x": e["x"], "block": limbs(real(e["lo"]) | (real(e["hi"], True) << 32))})
        elif op == "clone":
            ev.append({"op": "clone", "x": e["x"], "y": e["y"]})
        elif op == "bytes":
            ev.append({"op": "bytes", "n": e["len"]})
        elif op == "fill_slice":
            kind = (hid + len(ev)) % 3
            prior = stream[pos:pos + e["len"]] if kind == 0 else ([255] * e["len"] if kind == 1 else [0] * e["len"])
            pos += e["len"]
            ev.append({"op": "fill_slice" if (hid + len(ev)) % 2 or e["len"] not in (0, 1, 3, 4, 8, 16, 32, 63, 64, 65, 129) else "fill_bytes", "prior": prior})
    rec["ev"] = ev
    return rec
