"""C03 - ChaCha and Salsa families produce exactly the specified keystream.

MC:  the two counter disciplines (32-bit wrap; 64-bit carry) inside the stream context machine, exhaustively at
     word modulus 4 (StreamCtx, invariant: every byte = input XOR position-indexed keystream).
TV:  for every (variant, rounds, key length) and for start blocks 0, 1, 2^32-2, 2^32-1 (seek) resp. low word
     2^32-1 with high word 0 / k (counter hook), the real contexts encrypt seeded data crossing 2-3 blocks; the
     portable and the native engine are queried through the hook for every key/nonce length; TLC recomputes
     every byte from ChaCha.tla / Salsa.tla (RFC 8439, Bernstein's papers, XChaCha/XSalsa constructions)."""
import vlib
from props import streamcommon as sc


def describe(r, v):
    e = r["ev"][v[1] - 1]
    d = {"cls": r["cls"], "op": e["op"]}
    if r["cls"] == "engine":
        d.update({"engine": e.get("engine"), "keylen": len(e.get("key", []))})
    else:
        d.update({"variant": r.get("variant"), "rounds": r.get("rounds"), "keylen": len(r.get("key", []))})
    return d


def run(R):
    thorough = R.tier == "thorough"
    R.model_check("StreamCtx", "MC_StreamCtx_wrap.cfg", need_actions=["Proc", "Seek", "Clone", "Twice"], workers=8)
    R.model_check("StreamCtx", "MC_StreamCtx_carry.cfg", need_actions=["Proc", "SetCounter", "Clone", "Twice"], workers=8)
    hs = []
    for variant, (nl, keylens, wide) in sc.VARIANTS.items():
        for rounds in sc.ROUNDS:
            for kl in keylens:
                tag = "%s/%d/%d" % (variant, rounds, kl)
                # the block counter stepping over every byte boundary of its words (a vectorised increment with the wrong lane width
                # carries at 2^8 or 2^16 instead of 2^32), and over the word boundary itself
                if wide:
                    starts = [0, 1, 0xff, 0xffff, 0xffffff, 0x7fffffff, 0xffffffff, 0xffffffff | (5 << 32), 0x7fffffff | (2 << 32), 0xfffffffe, 0xffffffffff, 0xffffffffffff,
                              (1 << 56) - 1, (1 << 63) - 1]
                    starts += [R.rng.getrandbits(64) for _ in range(40 if thorough else 1)]
                else:
                    starts = [0, 1, 0xff, 0xffff, 0xffffff, 0x7fffffff, 0xfffffffe, 0xffffffff] if variant == "ietf" else [0, 1, 0xff, 0xffff, 0xffffff, 0x7ffffffe]
                    # XChaCha: 32-bit counter as implemented and as in draft-irtf-cfrg-xchacha; not exercised across 2^32 (DESIGN.md C03)
                    starts += [R.rng.getrandbits(32) & (0xffffffff if variant == "ietf" else 0x7fffffff) for _ in range(40 if thorough else 1)]
                for s in starts:
                    n = R.rng.choice([130, 131, 192, 200, 257, 320, 511] if thorough else [150, 151])
                    h = sc.base(R, variant, rounds, kl, tag + "/%d" % s)
                    h["id"] = R.next_id()
                    pre = [] if s == 0 else [{"op": "set_counter" if wide else "seek", "x": 1, "block": sc.limbs(s)}]
                    data = vlib.prng_bytes(R.seed, "c03d/%s/%d" % (tag, s), n)
                    # three calls: the first ends mid-block, the second starts mid-block, crosses a block end and ends mid-block, the third shows where
                    # the context believes it is; for one start per (variant, rounds, key length) the counter is set on a context already in use
                    cut2 = 70 + 64 + 5 if n > 70 + 64 + 5 + 1 else n - 1
                    # (+ a short call inside the block and an empty one before the last: where the context stands after a call that stayed inside the block)
                    cut3 = min(cut2 + 4, n - 1)
                    h["ev"] = [{"op": "new"}] + pre + [{"op": "process", "x": 1, "data": data[:70]}, {"op": "process_mut", "x": 1, "data": data[70:cut2]}, {"op": "process_mut", "x": 1, "data": data[cut2:cut3]},
                                                       {"op": "process", "x": 1, "data": []}, {"op": "process", "x": 1, "data": data[cut3:]}]
                    hs.append(h)
                    R.count((variant, rounds, kl, s), trivial=False)
                    if s == starts[1] or s == starts[-1]:
                        h2 = dict(h, id=R.next_id())
                        # after a partial block, to the block that follows it (s = 1) resp. after a whole block, to a far block
                        h2["ev"] = [{"op": "new"}, {"op": "process", "x": 1, "data": data[:33 if s == starts[1] else 64]}] + (pre or [{"op": "seek" if not wide else "set_counter", "x": 1, "block": sc.limbs(0)}]) + \
                                   [{"op": "process", "x": 1, "data": data[:70]}]
                        hs.append(h2)
                        R.count((variant, rounds, kl, s, "reposition-in-use"), trivial=False)
                        # a copy taken mid-block continues exactly where the original stands
                        h4 = dict(h, id=R.next_id())
                        h4["ev"] = [{"op": "new"}, {"op": "process", "x": 1, "data": data[:37]}, {"op": "clone", "x": 1, "y": 2}, {"op": "process", "x": 2, "data": data[37:120]},
                                    {"op": "process_mut", "x": 1, "data": data[37:120]}]
                        hs.append(h4)
                        R.count((variant, rounds, kl, s, "clone-mid-block"), trivial=False)
                        # calls that end exactly on a block end (after the rest of a block plus whole blocks, after whole blocks only, after one block)
                        # followed by more data: a block loop that leaves the block it produced marked as unread hands it out twice
                        h5 = dict(h, id=R.next_id())
                        d5 = vlib.prng_bytes(R.seed, "c03e/%s/%d" % (tag, s), 330)
                        h5["ev"] = [{"op": "new"}] + pre + [{"op": "process", "x": 1, "data": d5[:10]}, {"op": "process_mut", "x": 1, "data": d5[10:128]}, {"op": "process", "x": 1, "data": d5[128:256]},
                                                            {"op": "process_mut", "x": 1, "data": d5[256:320]}, {"op": "process", "x": 1, "data": d5[320:]}]
                        hs.append(h5)
                        R.count((variant, rounds, kl, s, "block-aligned-calls"), trivial=False)
                        if s == starts[1]:                 # positioned twice in a row, the second time one block back
                            h3 = dict(h, id=R.next_id())
                            posop = "set_counter" if wide else "seek"
                            h3["ev"] = [{"op": "new"}, {"op": posop, "x": 1, "block": sc.limbs(s + 1)}, {"op": posop, "x": 1, "block": sc.limbs(s)}, {"op": "process", "x": 1, "data": data[:70]}]
                            hs.append(h3)
                            R.count((variant, rounds, kl, s, "positioned-twice"), trivial=False)
    # special keys / nonces: all-zero and all-ones
    for variant, (nl, keylens, wide) in sc.VARIANTS.items():
        for kb, nb in ((0, 0), (255, 255), (0, 255)):
            h = {"cls": "stream", "variant": variant, "rounds": 20, "key": [kb] * keylens[-1], "nonce": [nb] * nl, "id": R.next_id(),
                 "ev": [{"op": "new"}, {"op": "process", "x": 1, "data": [0] * 65}]}
            hs.append(h)
            R.count((variant, "special", kb, nb))
    # engines behind the hook: every key length x nonce length x rounds, counters around the word boundary
    evs = []
    for eng in ("native", "portable"):
        for rounds in sc.ROUNDS:
            for kl in (16, 32):
                for nl in (8, 12, 16):
                    key = vlib.prng_bytes(R.seed, "ekey/%d/%d" % (rounds, kl), kl)
                    nonce = vlib.prng_bytes(R.seed, "enonce/%d/%d" % (rounds, nl), nl)
                    evs.append({"op": "block", "engine": eng, "rounds": rounds, "key": key, "nonce": nonce})
                    if nl != 16:
                        evs.append({"op": "block", "engine": eng, "rounds": rounds, "key": key, "nonce": nonce, "ctr32": sc.limbs(0xffffffff), "inc": 1})
                        evs.append({"op": "block", "engine": eng, "rounds": rounds, "key": key, "nonce": nonce, "ctr": sc.limbs(0xffffffff | (9 << 32)), "inc64": 1})
                        evs.append({"op": "block", "engine": eng, "rounds": rounds, "key": key, "nonce": nonce, "ctr": sc.limbs(0xfffffffe), "inc64": 3})
                        # positioned, advanced, positioned again (to a value that is not a bit-superset of where the state stands)
                        evs.append({"op": "block", "engine": eng, "rounds": rounds, "key": key, "nonce": nonce, "ctr32": sc.limbs(0xf0f0), "inc": 3, "ctr32b": sc.limbs(0x0101)})
                        evs.append({"op": "block", "engine": eng, "rounds": rounds, "key": key, "nonce": nonce, "inc": 2, "ctr32b": sc.limbs(1)})
                    else:
                        evs.append({"op": "hchacha", "engine": eng, "rounds": rounds, "key": key, "nonce": nonce})
    for i in range(0, len(evs), 6):
        hs.append({"cls": "engine", "id": R.next_id(), "ev": evs[i:i + 6]})
        for e in evs[i:i + 6]:
            R.count(("engine", e["engine"], e["rounds"], len(e["key"]), len(e["nonce"]), e["op"], "ctr" in e, "ctr32" in e, "ctr32b" in e))
    R.rule = ("one history per (variant, rounds, key length, start block): [new, seek/set_counter(start), process(70), process_mut(rest)] with start in "
              "{0,1,2^32-2,2^32-1} (IETF), {0,1,2^31-1} (XChaCha), {0,1,2^32-2,2^32-1,2^32-1+5*2^32} (64-bit counters) + seeded starts; for two starts each also repositioning in use, a clone mid-block and calls ending exactly on block ends (10, 118, 128, 64, 10 bytes); special keys; "
              "engine queries native/portable x rounds x key 16/32 x nonce 8/12/16 with counter increments across the word boundary; all non-trivial")
    res = R.conform("TraceStream", hs, cost=sc.cost_stream, describe=describe)
    for r in res["records"][:3] + res["records"][-2:]:
        R.sample({k: (v if not isinstance(v, list) else vlib.hexs(v)) for k, v in r.items() if k not in ("ev",)} |
                 {"events": [(e["op"], str(e.get("block")) if "block" in e else len(e.get("data", [])), vlib.hexs(e["out"]["v"])[:24]) for e in r["ev"]][:4]})
    R.assumptions += ["XChaCha is specified with the 32-bit counter of draft-irtf-cfrg-xchacha and is not exercised across block 2^32",
                      "keys, nonces and data are seeded samples plus all-zero / all-ones"]
