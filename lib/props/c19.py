"""C19 - secret values never influence which instructions execute.

MC:  NonInterference.tla - the 2-safety property by self-composition on the four control-flow idioms the crate
     relies on (accumulating comparison, masked-swap ladder, scan-all table lookup, masked final subtraction): for all
     pairs of secrets the two copies are at the same label at every step.  Ladder.tla - the real ladder skeleton
     executes StepBit^255 . Finish for every scalar (its action sequence does not depend on the scalar).
TV:  the observation prescribed by the property: the victim (the release build of the harness, `drive --victim`)
     runs under ct/pctrace.c, which single-steps it between two marker system calls and folds the sequence of
     instruction addresses into one digest per 4 096 instructions (+ the instruction count).  For every victim
     and fixed public input, the digest streams obtained for the different secrets are the K copies of the
     product machine; TraceEquiv validates them in lock-step (equal observation at every step).
     Victims: X25519 (general, fixed-base), Ed25519 key generation and signing, Poly1305, HMAC-SHA1/256/512,
     ChaCha20, Salsa20, MacResult == (tag lengths 16/20/28/32/64) and Tag == for equal operands and every position
     of the first mismatching byte.  Secrets: seeded random, all-zero, all-ones, single-bit patterns."""
import concurrent.futures as cf
import os
import subprocess
import vlib

PCTRACE = os.path.join(vlib.WORK, "pctrace")


def build_tracer():
    os.makedirs(vlib.WORK, exist_ok=True)
    src = os.path.join(vlib.ROOT, "ct", "pctrace.c")
    if not os.path.exists(PCTRACE) or os.path.getmtime(PCTRACE) < os.path.getmtime(src):
        p = subprocess.run(["gcc", "-O2", "-o", PCTRACE, src], capture_output=True, text=True)
        if p.returncode != 0:
            raise vlib.ToolError("cannot compile pctrace: " + p.stderr[-500:])


def trace(binp, victim, secret, public, dump=None, timeout=900):
    env = dict(os.environ)
    env.pop("PCDUMP", None)
    if dump is not None:
        env["PCDUMP"] = "%d:%d" % dump
    cmd = [PCTRACE, binp, "--victim", victim, vlib.hexs(secret)] + ([vlib.hexs(public)] if public is not None else [])
    try:
        p = subprocess.run(cmd, capture_output=True, text=True, timeout=timeout, env=env)
    except subprocess.TimeoutExpired:
        raise vlib.ToolError("pctrace timeout: %s" % victim)
    if p.returncode != 0:
        raise vlib.ToolError("pctrace failed for %s: %s" % (victim, p.stderr[-300:]))
    if dump is not None:
        return [int(l.split()[2], 16) for l in p.stdout.splitlines() if l.startswith("a ")]
    chunks, n = [], None
    for l in p.stdout.splitlines():
        f = l.split()
        if f[0] == "c":
            chunks.append(list(bytes.fromhex(f[2])))
        elif f[0] == "n":
            n = int(f[1])
    if n is None:
        raise vlib.ToolError("pctrace gave no instruction count for %s" % victim)
    return chunks, n


def secrets32(R, tag, k):
    """k secrets of 32 bytes: seeded random, all-zero, all-ones, single-bit patterns, more seeded"""
    pool = [("random0", vlib.prng_bytes(R.seed, "c19/%s/0" % tag, 32)), ("zero", [0] * 32), ("ones", [255] * 32),
            ("bit0", [1] + [0] * 31), ("bit255", [0] * 31 + [0x80]), ("bit1", [2] + [0] * 31), ("bit2", [4] + [0] * 31), ("bit128", [0] * 16 + [1] + [0] * 15)]
    i = 1
    while len(pool) < k:
        pool.append(("random%d" % i, vlib.prng_bytes(R.seed, "c19/%s/%d" % (tag, i), 32)))
        i += 1
    return pool[:k]


def groups(R, thorough):
    """list of (group name, victim, [(label, secret, public)])"""
    g = []
    kc = 24 if thorough else 3
    g.append(("x25519/u=9", "x25519", [(l, s, None) for l, s in secrets32(R, "x", kc)]))
    g.append(("x25519/u=seeded", "x25519", [(l, s, vlib.prng_bytes(R.seed, "c19/u", 32)) for l, s in secrets32(R, "x2", kc)]))
    g.append(("x25519_base", "x25519_base", [(l, s, None) for l, s in secrets32(R, "xb", kc)]))
    g.append(("ed_keypair", "ed_keypair", [(l, s, None) for l, s in secrets32(R, "ek", kc)]))
    g.append(("ed_sign/msg96", "ed_sign", [(l, s, None) for l, s in secrets32(R, "es", kc)]))
    g.append(("ed_sign/msg0", "ed_sign", [(l, s, []) for l, s in secrets32(R, "es0", kc)]))
    # signing with hand-built extended keys: scalar halves below and above the group order, clamped and not
    L_ = (1 << 252) + 27742317777372353535851937790883648493
    pre = vlib.prng_bytes(R.seed, "c19/extprefix", 32)
    le = lambda v: list(v.to_bytes(32, "little"))
    exts = [("scalar=0", le(0)), ("scalar=8", le(8)), ("scalar=L-1", le(L_ - 1)), ("scalar=L", le(L_)), ("scalar=L+1", le(L_ + 1)), ("scalar=2^252-1", le((1 << 252) - 1)),
            ("scalar=clamped-seeded", le(((int.from_bytes(bytes(vlib.prng_bytes(R.seed, "c19/exts", 32)), "little") >> 3 << 3) | (1 << 254)) % (1 << 255))), ("scalar=2^255-8", le((1 << 255) - 8)),
            ("scalar=seeded-small", le(int.from_bytes(bytes(vlib.prng_bytes(R.seed, "c19/exts2", 32)), "little") >> 5))]
    g.append(("ed_sign_ext/msg96", "ed_sign_ext", [(l, s + pre, None) for l, s in exts[: (len(exts) if thorough else 6)]]))
    g.append(("ed_exchange", "ed_exchange", [(l, s, None) for l, s in secrets32(R, "ex", kc)]))
    # the same curve victims on the build with the 32-bit field / scalar back-end (group name prefix "f32:")
    kf = 12 if thorough else 3
    g.append(("f32:x25519/u=9", "x25519", [(l, s, None) for l, s in secrets32(R, "fx", kf)]))
    g.append(("f32:x25519_base", "x25519_base", [(l, s, None) for l, s in secrets32(R, "fxb", kf)]))
    g.append(("f32:ed_keypair", "ed_keypair", [(l, s, None) for l, s in secrets32(R, "fek", kf + 2)]))
    g.append(("f32:ed_sign/msg96", "ed_sign", [(l, s, None) for l, s in secrets32(R, "fes", kf)]))
    g.append(("f32:ed_sign_ext/msg96", "ed_sign_ext", [(l, s + pre, None) for l, s in exts[:4]]))
    g.append(("x25519_newtype", "x25519_newtype", [(l, s, None) for l, s in secrets32(R, "xn", kc)]))
    # AEAD tag verification: the candidate tag is right, or wrong from byte i on / in byte i only, for every i, through the one-shot and the incremental interface
    masks = [("tag:right", [0] * 16)]
    for i in range(16):
        masks.append(("tag:byte%d" % i, [0] * i + [1 << (i % 8)] + [0] * (15 - i)))
        masks.append(("tag:from%d" % i, [0] * i + [0xff] * (16 - i)))
    for v in ("aead_decrypt", "aead_finalize"):
        g.append((v, v, [(l, m, None) for l, m in masks]))
    km = 30 if thorough else 8
    for mname, msg in (("seq96", None), ("ff32", [255] * 32), ("ff16", [255] * 16), ("ff47", [255] * 47), ("zero64", [0] * 64)):
        # keys with r in {1, 2, 4} (single-bit), saturated r, seeded: the final reduction h >= p must not be a branch
        ks = secrets32(R, "p/" + mname, km) + [("r=ones,s=0", [255] * 16 + [0] * 16), ("r=0,s=ones", [0] * 16 + [255] * 16), ("r=1,s=seeded", [1] + [0] * 15 + vlib.prng_bytes(R.seed, "c19/ps", 16))]
        g.append(("poly1305/" + mname, "poly1305", [(l, s, msg) for l, s in ks]))
    # secrets crafted for the fixed public input: a Poly1305 key that drives the limb code through its rare carry / select branches for this very
    # message (polycraft, classes of Poly1305Donna.tla), next to ordinary keys for the same message
    from props import polycraft
    for cls in ("chain1", "chain3", "fin_h0_carry", "fin_h0_carry_h1_odd", "acc_p_plus_1", "acc_2_130_minus_1"):
        r = polycraft.craft(cls, R.rng)
        if r:
            g.append(("poly1305/crafted-" + cls, "poly1305", [("crafted:" + cls, r[0], r[1])] + [(l, s, r[1]) for l, s in secrets32(R, "pc/" + cls, 5)]))
    # an X25519 secret for which the shared secret with the fixed peer value is a boundary value of the field representation (small, or just
    # below p: the canonical encoding's final subtraction), next to ordinary secrets for the same peer value
    from props import curvecommon as cc
    for fam, cands in (("below-p", [cc.P - k for k in range(1, 400)]), ("small", list(range(19, 400))), ("low-limb-full", [((R.rng.getrandbits(204) << 51) | ((1 << 51) - k)) for k in (1, 2, 14, 15, 18, 19) for _ in range(12)])):
        k0 = vlib.prng_bytes(R.seed, "c19/xk/" + fam, 32)
        for v in cands:
            u = cc.x25519_preimage(v % cc.P, k0)
            if u is not None:
                g.append(("x25519/result-" + fam, "x25519", [("crafted:" + fam, k0, cc.le32(u))] + [(l, s, cc.le32(u)) for l, s in secrets32(R, "xr/" + fam, 3 if not thorough else 8)]))
                break
    # single field operations on secret operands (every value the ladder and the group formulas compute with is secret-derived): operands at the
    # limb boundaries, and limb patterns crafted for the rare tail carries of the carry chains (classes of Fe64.tla), next to ordinary ones
    z32 = [0] * 32
    mso = cc.mul_small_operands(R.rng)
    for victim, nine in (("fe:mul_small", 0), ("fe:sub:mul_small", 0), ("fe:mul_small9", 1), ("fe:sub:mul_small9", 1)):
        g.append((victim, victim, [(l, e + z32, None) for l, n, e in mso if n == nine]))
    M51 = (1 << 51) - 1
    vals = [("zero", 0), ("one", 1), ("two", 2), ("19", 19), ("p-1", cc.P - 1), ("p", cc.P), ("p+1", cc.P + 1), ("2^255-1", (1 << 255) - 1), ("limb0-full", M51), ("limb4-full", M51 << 204),
            ("limb0-band", (R.rng.getrandbits(204) << 51) | (M51 - 7)), ("2^254", 1 << 254)] + [("seeded%d" % i, int.from_bytes(bytes(vlib.prng_bytes(R.seed, "c19/fe/%d" % i, 32)), "little") >> 1) for i in range(4)]
    pairs = [(la + "," + lb, cc.le32(a) + cc.le32(b)) for (la, a), (lb, b) in zip(vals, vals[3:] + vals[:3])] + [("two,2^255-1", cc.le32(2) + cc.le32((1 << 255) - 1)), ("2^255-1,2^255-1", cc.le32((1 << 255) - 1) * 2),
             ("p-1,p-1", cc.le32(cc.P - 1) * 2), ("zero,zero", z32 * 2)]
    for victim in ("fe:mul", "fe:square", "fe:add", "fe:sub", "fe:neg", "fe:square_and_double", "fe:to_bytes", "fe:is_negative", "fe:add:mul", "fe:sub:square", "fe:mul:to_bytes", "fe:add:to_bytes",
                   "fe:sub:to_bytes") + (("fe:invert",) if thorough else ()):
        g.append((victim, victim, [(l, s, None) for l, s in pairs]))
    g.append(("fe:invert/few", "fe:invert", [(l, s, None) for l, s in pairs[:3] + pairs[-3:]]))
    for v in ("hmac_sha256", "hmac_sha512", "hmac_sha1"):
        g.append((v + "/key32", v, [(l, s, None) for l, s in secrets32(R, v, km)]))
        g.append((v + "/key20", v, [(l, s[:20], None) for l, s in secrets32(R, v + "20", 5)]))
    for v in ("chacha20", "salsa20"):
        g.append((v + "/key32", v, [(l, s, None) for l, s in secrets32(R, v, km)]))
        g.append((v + "/key16", v, [(l, s[:16], None) for l, s in secrets32(R, v + "16", 5)]))
    # comparisons: equal, first mismatch at every position (only that byte / everything from there on), different tags
    for n in (16, 20, 28, 32, 64):
        cases = []
        for t in range(3 if thorough else 2):
            tag = vlib.prng_bytes(R.seed, "c19/tag/%d/%d" % (n, t), n)
            cases.append(("tag%d:equal" % t, tag, list(tag)))
            for pos in range(n):
                c1 = list(tag)
                c1[pos] ^= 1 << (pos % 8)
                cases.append(("tag%d:byte%d" % (t, pos), tag, c1))
                if t == 0:
                    c2 = list(tag[:pos]) + [x ^ 0xff for x in tag[pos:]]
                    cases.append(("tag%d:from%d" % (t, pos), tag, c2))
        g.append(("mac_eq/len%d" % n, "mac_eq", cases))
        if n == 16:
            g.append(("tag_eq", "tag_eq", cases))
    return g


def run(R):
    thorough = R.tier == "thorough"
    R.model_check("NonInterference", "MC_NonInterference.cfg", need_actions=["Next"], workers=4)
    R.model_check("Ladder", "MC_Ladder.cfg", need_actions=["StepBit", "Finish"], workers=4)
    build_tracer()
    binp = vlib.build("rel")
    R.builds.append("rel")
    binf = vlib.build("f32")
    R.builds.append("f32")
    gs = groups(R, thorough)
    bin_of = lambda gi: binf if gs[gi][0].startswith("f32:") else binp
    jobs = [(gi, ci, v, s, p) for gi, (name, v, cases) in enumerate(gs) for ci, (l, s, p) in enumerate(cases)]
    # long victims first
    order = sorted(jobs, key=lambda j: 0 if gs[j[0]][1] in ("x25519", "x25519_base", "ed_keypair", "ed_sign") else 1)
    results = {}
    with cf.ThreadPoolExecutor(max_workers=vlib.NCPU) as ex:
        futs = {ex.submit(trace, bin_of(gi), v, s, p): (gi, ci) for (gi, ci, v, s, p) in order}
        for f in cf.as_completed(futs):
            results[futs[f]] = f.result()
    merged, base = [], []
    for gi, (name, v, cases) in enumerate(gs):
        streams = [results[(gi, ci)] for ci in range(len(cases))]
        nchunks = max(len(c) for c, n in streams)
        ev = [{"op": "count", "outs": [{"k": "v", "v": list(n.to_bytes(8, "little"))} for c, n in streams]}]
        for k in range(nchunks):
            ev.append({"op": "chunk", "outs": [({"k": "v", "v": c[k]} if k < len(c) else {"k": "n", "v": []}) for c, n in streams]})
        hid = R.next_id()
        merged.append({"id": hid, "tags": [l for l, s, p in cases], "ev": ev})
        base.append({"id": hid, "cls": "pctrace", "group": name, "victim": v, "cases": [{"label": l, "secret": s, "public": p} for l, s, p in cases],
                     "ev": [{"op": e["op"]} for e in ev]})
        for l, s, p in cases:
            R.count((name, l))
        R.extra.setdefault("victims", {})[name] = {"copies": len(cases), "instructions": streams[0][1], "chunks": nchunks}

    def describe(r, v):
        return {"cls": "pctrace", "group": r["group"], "victim": r["victim"]}
    nviol = len(R.violations)
    R.equiv_merged(merged, base, "pc", describe=describe)
    # localise every divergence: first differing instruction address of the two blamed copies, symbolised
    for v in R.violations[nviol:]:
        r = v["record"]
        try:
            la, lb = v["expected"][0], v["observed"][0]
            ca = [c for c in r["cases"] if c["label"] == la][0]
            cb = [c for c in r["cases"] if c["label"] == lb][0]
            k = max(0, v["position"] - 2)
            bx = binf if r["group"].startswith("f32:") else binp
            pa = trace(bx, r["victim"], ca["secret"], ca["public"], dump=(k, k))
            pb = trace(bx, r["victim"], cb["secret"], cb["public"], dump=(k, k))
            j = next((i for i in range(min(len(pa), len(pb))) if pa[i] != pb[i]), min(len(pa), len(pb)))
            at = pa[j - 1] if j > 0 else (pa[0] if pa else 0)
            sym = subprocess.run(["llvm-symbolizer-14", "--obj=" + bx, hex(at - 0x555555554000 if at >= 0x555555554000 else at)], capture_output=True, text=True).stdout.strip().replace("\n", " ")
            v["desc"] = dict(v["desc"], diverges_after=hex(at), where=sym[:300], copies="%s vs %s" % (la, lb))
            vlib.log("  divergence in %s between %s and %s after %s %s" % (r["group"], la, lb, hex(at), sym[:200]))
        except Exception as ex:            # localisation is a convenience; the verdict stands without it
            vlib.log("  (could not localise the divergence: %s)" % ex)
    R.rule = ("one product history per (victim, public input): copies = secrets (%s for the curve victims, %s+3 keys x 5 messages for Poly1305, "
              "%s for HMAC / ciphers) or (tag, candidate) pairs for the comparisons (equal + every first-mismatch position x 2 mismatch kinds, lengths 16/20/28/32/64); "
              "event = instruction count, then one digest per 4096 instruction addresses; distinct = (victim, public input, secret label)" % (
                  "24" if thorough else "3", "30" if thorough else "8", "30" if thorough else "8"))
    for name in ("x25519/u=9", "ed_sign/msg96", "poly1305/ff32", "mac_eq/len20", "poly1305/crafted-chain1", "x25519/result-below-p"):
        R.sample({"victim": name, **R.extra["victims"][name]})
    R.assumptions += ["the observable is the sequence of instruction addresses of this compiler's release build on this x86-64 host: no memory-address, cache or timing model",
                      "secrets are sampled (seeded random, all-zero, all-ones, single-bit, crafted Poly1305 keys); this is testing of a hyperproperty, not a proof over all secrets",
                      "ptrace single-stepping with ASLR disabled is deterministic for a single-threaded victim (checked: identical streams for repeated runs)"]


def replay(R, rp):
    """re-trace the two blamed copies of a replay file and validate them again in lock-step"""
    build_tracer()
    r = rp["history"]
    binp = vlib.build("f32" if r.get("group", "").startswith("f32:") else "rel")
    la, lb = rp["expected"][0], rp["observed"][0]
    cases = [c for c in r["cases"] if c["label"] in (la, lb)]
    streams = [trace(binp, r["victim"], c["secret"], c["public"]) for c in cases]
    nchunks = max(len(c) for c, n in streams)
    ev = [{"op": "count", "outs": [{"k": "v", "v": list(n.to_bytes(8, "little"))} for c, n in streams]}]
    for k in range(nchunks):
        ev.append({"op": "chunk", "outs": [({"k": "v", "v": c[k]} if k < len(c) else {"k": "n", "v": []}) for c, n in streams]})
    merged = [{"id": 1, "tags": [c["label"] for c in cases], "ev": ev}]
    base = [dict(r, id=1, ev=[{"op": e["op"]} for e in ev])]
    R.equiv_merged(merged, base, "replay.pc", describe=lambda r, v: rp.get("desc", {}))
