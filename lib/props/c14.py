"""C14 - Ed25519 verify accepts exactly the signatures satisfying the equation.

MC:  Recode.tla - the sliding-window recoding used by the variable-time double-scalar multiplication.
TV:  phase 1 obtains honest signatures from the implementation (validated against RFC 8032 as in C13).  phase 2 feeds
     verify with: the honest triples; single-bit mutations of signature / message / key; S + k*L for every k that
     fits in 256 bits; S of the shapes 2^252 + 2^j (canonical below j = 125, non-canonical above) under the neutral public
     key with R = [S]B (so that the equation itself holds); public keys and R values drawn from the 8 small-order
     points, their non-canonical encodings and non-points; keys selected to have a zero first / last byte; seeded random
     triples.  The expected verdict is always COMPUTED by TLC from Ed25519.tla:
     decodable(A) /\\ A # 0^32 /\\ S < L /\\ Encode(S*B - H(R||A||M)*A) = R (bytes)."""
import hashlib
import vlib
from props import curvecommon as cc


def flip(b, i):
    b = list(b)
    b[i // 8] ^= 1 << (i % 8)
    return b


def run(R):
    thorough = R.tier == "thorough"
    R.model_check("Recode", "MC_Recode.cfg" if not thorough else "MC_Recode4.cfg", need_actions=["Check"], workers=8)
    rb = lambda t, n=32: vlib.prng_bytes(R.seed, "c14/" + t, n)
    # ---- phase 1: honest signatures from the implementation
    pairs = []
    for i in range(6 if thorough else 3):
        pairs.append((rb("seed%d" % i), rb("msg%d" % i, (i * 53) % 130)))
    # a long message: the challenge hash receives several whole 128-byte blocks in one update (bit flips far into it are part of the adversarial set below)
    pairs.append((rb("seedlong"), rb("msglong", 450)))
    # keys selected by structure: public key with a zero last byte / zero first byte
    want = {"last0": lambda pk: pk[31] == 0, "first0": lambda pk: pk[0] == 0}
    t = 0
    while want and t < 3000:
        s = rb("sel%d" % t)
        pk = cc.ed_public(s)
        for name in list(want):
            if want[name](pk):
                pairs.append((s, rb("selmsg" + name, 20)))
                del want[name]
        t += 1
    hs = [{"id": R.next_id(), "cls": "fn", "ev": [{"op": "ed_keypair", "seed": s}, {"op": "ed_signature", "seed": s, "msg": m}]} for s, m in pairs]
    # triples made with the extended-key interface: an extended secret that is the image of a seed, and free ones (scalar reduced / not in clamped shape)
    exts = [cc.extended_secret(pairs[0][0])] + [cc.le32(v) + rb("extprefix%d" % i) for i, v in enumerate([(int.from_bytes(bytes(rb("extscalar")), "little") % cc.L), 8, (1 << 254) + 40])]
    ext_hs = [{"id": R.next_id(), "cls": "fn", "ev": [{"op": "ed_extended_to_public", "ext": x}, {"op": "ed_signature_extended", "ext": x, "msg": rb("extmsg%d" % i, 10 + 30 * i)}]} for i, x in enumerate(exts)]
    hs += ext_hs
    res = R.conform("TraceCurve", hs, cost=cc.cost_curve, describe=lambda r, v: {"cls": "fn", "op": r["ev"][v[1] - 1]["op"], "phase": 1}, label="TraceCurve.sign", timeout=3000)
    evs = []

    def add(msg, pk, sig, key):
        evs.append(({"op": "ed_verify", "msg": msg, "pk": pk, "sig": sig}, key))

    honest = []
    for r in res["records"]:
        if r["ev"][0]["out"]["k"] != "v" or r["ev"][1]["out"]["k"] != "v":
            continue
        if r["ev"][0]["op"] == "ed_extended_to_public":
            honest.append((r["ev"][1]["msg"], r["ev"][0]["out"]["v"], r["ev"][1]["out"]["v"]))
            continue
        pk = r["ev"][0]["out"]["v"][32:64]
        honest.append((r["ev"][1]["msg"], pk, r["ev"][1]["out"]["v"]))
    for i, (m, pk, sig) in enumerate(honest):
        add(m, pk, sig, ("honest", i))
    # the long message: honest, and with single bits flipped in each of its 128-byte blocks (incl. those a bulk compression path would handle)
    for (lm, lpk, lsig) in [h for h in honest if len(h[0]) >= 400][:1]:
        for b in [8 * o + (o % 8) for o in (0, 63, 64, 191, 192, 200, 319, 320, 447, 449)]:
            add(flip(lm, b), lpk, lsig, ("longmsgbit", b))
    m, pk, sig = honest[0]
    S = int.from_bytes(bytes(sig[32:]), "little")
    # single-bit mutations
    sigbits = range(512) if thorough else sorted(R.rng.sample(range(256), 6) + R.rng.sample(range(256, 504), 6) + [504, 508, 509, 510, 511])
    for b in sigbits:
        add(m, pk, flip(sig, b), ("sigbit", b))
    for b in (range(256) if thorough else R.rng.sample(range(256), 4) + [255]):
        add(m, flip(pk, b), sig, ("keybit", b))
    for b in (R.rng.sample(range(8 * len(m)), min(8 if thorough else 3, 8 * len(m))) if m else []):
        add(flip(m, b), pk, sig, ("msgbit", b))
    add(m + [0], pk, sig, ("msgext", 0))
    add(m[:-1], pk, sig, ("msgtrunc", 0))
    # S + k L for all k that fit in 256 bits
    k = 1
    while S + k * cc.L < 2 ** 256:
        add(m, pk, sig[:32] + cc.le32(S + k * cc.L), ("S+kL", k))
        k += 1
    for hi, (m2, pk2, sig2) in enumerate(honest[1:4]):      # the same for further honest triples (whether a non-canonical S survives the rest of the computation depends on S)
        S2_ = int.from_bytes(bytes(sig2[32:]), "little")
        k = 1
        while S2_ + k * cc.L < 2 ** 256:
            add(m2, pk2, sig2[:32] + cc.le32(S2_ + k * cc.L), ("S+kL", hi + 1, k))
            k += 1
    add(m, pk, sig[:32] + cc.le32(cc.L), ("S=L", 0))
    add(m, pk, sig[:32] + cc.le32(cc.L - 1), ("S=L-1", 0))
    add(m, pk, sig[:32] + [255] * 32, ("S=2^256-1", 0))
    ident = cc.le32(1)
    # S = 0 with the neutral R under an honest key (the equation would need h*A = 0), and with R = the key itself
    add(m, pk, ident + cc.le32(0), ("S=0", "R=neutral"))
    add(m, pk, pk + cc.le32(0), ("S=0", "R=A"))
    # the neutral public key: h*A vanishes, the equation reads Encode(S*B) = R
    for S2, name in [(0, "0"), (1, "1"), (cc.L - 1, "L-1"), (cc.L - 2, "L-2"), (2 ** 252, "2^252")]:
        add(rb("nm", 5), ident, cc.enc_mul_base(S2) + cc.le32(S2), ("neutral", name))
    # non-canonical encodings of R (the neutral element as y = p + 1, and / or with the sign bit set although x = 0): the comparison is on the bytes of R
    for i, renc in enumerate([cc.le32(1 | (1 << 255)), cc.le32(cc.P + 1), cc.le32((cc.P + 1) | (1 << 255))]):
        if renc != ident:
            add(rb("nm", 5), ident, renc + cc.le32(0), ("neutral-noncanonical-R", i))
            add(m, pk, renc + cc.le32(0), ("honest-noncanonical-R", i))
    js = range(0, 252) if thorough else list(range(120, 130)) + list(range(160, 232, 4)) + [0, 56, 112, 125, 167, 168, 223, 224, 251]
    for j in sorted(set(js)):
        S2 = 2 ** 252 + 2 ** j
        if S2 < cc.L and not (thorough or j in (0, 112, 124)):
            continue                                       # accepted shapes cost a full verification each: a few suffice
        add(rb("nm", 5), ident, cc.enc_mul_base(S2 % cc.L) + cc.le32(S2), ("neutral-shape", j))
    for S2 in [cc.L, cc.L + 1, 2 ** 253, 2 ** 255, 2 ** 256 - 1, cc.L + 2 ** 200]:
        add(rb("nm", 5), ident, cc.enc_mul_base(S2 % cc.L) + cc.le32(S2), ("neutral-noncanon", S2 % 1000))
    # small-order public keys and R values (canonical and non-canonical encodings), non-points, zero key
    so = cc.small_order_points()
    enc_all = []
    for e in so:
        enc_all.append(e)
        enc_all += cc.noncanonical_variants(e)
    enc_all.append(cc.le32(1 | (1 << 255)))                 # x = 0 with the sign bit set
    enc_all.append(cc.le32((cc.P - 1) | (1 << 255)))
    enc_all.append(cc.le32(cc.P + 1))                       # y = 1 non-canonical
    for i, A in enumerate(enc_all):
        S2 = (i * 7919 + 3) % cc.L
        # with a small-order A the equation can hold for suitable (R, S): try R = S*B and R = S*B - h*A for the 8 candidates of h*A
        add(rb("som", 3), A, cc.enc_mul_base(S2) + cc.le32(S2), ("smallA", i))
        if thorough or i < 6:
            add(rb("som", 3), A, so[i % 8] + cc.le32(0), ("smallA-smallR", i))
    nonpoints = []
    y = 2
    while len(nonpoints) < (6 if thorough else 3):
        if cc.ed_recover_x(y, 0) is None:
            nonpoints.append(cc.le32(y))
        y += 1
    for i, A in enumerate(nonpoints):
        add(m, A, sig, ("nonpointA", i))
        add(m, pk, A + sig[32:], ("nonpointR", i))
    add(m, [0] * 32, sig, ("zerokey", 0))
    add(m, [0] * 32, cc.enc_mul_base(5) + cc.le32(5), ("zerokey-equation", 0))     # the all-zero key decodes to a point of order 4: must still be refused
    for i in range(8 if thorough else 3):
        add(rb("rm%d" % i, 10), rb("rpk%d" % i), rb("rsig%d" % i, 64), ("random", i))
    hs2 = []
    for e, key in evs:
        hs2.append({"id": R.next_id(), "cls": "fn", "ev": [e]})
        R.count(key, trivial=False)
    res2 = R.conform("TraceCurve", hs2, cost=cc.cost_curve, describe=lambda r, v: {"cls": "fn", "op": "ed_verify"}, label="TraceCurve.verify", timeout=4000)
    acc = sum(1 for r in res2["records"] if r["ev"][0]["out"]["v"] == [1])
    R.extra["accepted"] = acc
    R.extra["rejected"] = len(res2["records"]) - acc
    R.rule = ("phase 1: honest (seed, message) pairs signed by the implementation (incl. keys selected for a zero first/last byte); phase 2: one verify call per triple: honest, bit flips "
              "(signature: " + ("all 512" if thorough else "17 positions") + "; key; message), message extension/truncation, S+kL for all fitting k, S in {L-1, L, 2^256-1}, neutral-key triples with "
              "S = 2^252+2^j shapes and other non-canonical S, small-order / non-canonical / non-point A and R, all-zero key, random triples; verdicts computed by TLC; distinct = (mutation class, index)")
    for r in res2["records"][:2] + res2["records"][30:32] + res2["records"][-2:]:
        e = r["ev"][0]
        R.sample({"pk": vlib.hexs(e["pk"])[:16], "sig_S": vlib.hexs(e["sig"][32:])[-16:], "msg_len": len(e["msg"]), "verdict": e["out"]["v"]})
