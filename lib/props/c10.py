"""C10 - HKDF, PBKDF2 and scrypt derive exactly the keys their RFCs define.

TV:  HKDF-Extract / -Expand for SHA-256, SHA-512, SHA-1 (+ SHA3-256, BLAKE2s in thorough) with
     L in {0, 1, HashLen-1, HashLen, HashLen+1, 2*HashLen+1, 255*HashLen} and the refusal at 255*HashLen+1 .. 256*HashLen;
     PBKDF2 with HMAC-SHA1/256/512, c in 1..5 (+ one larger), dkLen across 1-3 PRF blocks +-1;
     scrypt for log2 N in 1..4 (quick) / 1..10 (thorough), r in 1..8, p in 1..4, dkLen in {1,31,32,33,64,130}.
     TLC recomputes every output from HMAC.tla / Scrypt.tla (RFC 5869, RFC 8018, RFC 7914).
MC:  the HMAC object reuse inside the KDF loops (reset after raw_result) is the MacObj "hmac" machine."""
import vlib
from props import hashcommon as hc

HL = {"sha1": 20, "sha256": 32, "sha512": 64, "sha3_256": 32, "blake2s": 32, "sha224": 28, "sha384": 48}
HL.update({a: v[2] for a, v in list(hc.MD.items()) + list(hc.SPONGE.items())})


def cost_kdf(rec):
    c = 1.0
    for e in rec["ev"]:
        alg = e.get("alg", "sha256")
        w = {"sha1": 6, "sha256": 5, "sha224": 5, "sha512": 15, "sha384": 15, "sha3_256": 30, "blake2s": 12}.get(alg, 10)
        if e["op"] == "hkdf_extract":
            c += w * (4 + (len(e["salt"]) + len(e["ikm"])) // 64)
        elif e["op"] == "hkdf_expand":
            c += w * 5 * (1 + e["n"] // HL[alg]) if e["n"] <= 255 * HL[alg] else 1
        elif e["op"] == "pbkdf2":
            c += w * 4 * e["c"] * (1 + e["n"] // HL[alg])
        elif e["op"] == "pbkdf2_blocks":
            c += w * 4 * e["c"] * len(e["blocks"])
        elif e["op"] == "scrypt":
            c += 3 * 2 * (2 ** e["logn"]) * 2 * e["r"] * e["p"] + 5 * 4 * (4 + e["p"] * 128 * e["r"] // 32)
    return c


def run(R):
    thorough = R.tier == "thorough"
    R.model_check("MacObj", "MC_MacObj_hmac.cfg", need_actions=["Input", "Result", "Reset"], workers=4)
    # the output loops of HKDF-Expand (counter of W bits, refusal beyond (2^W - 1) blocks) and PBKDF2 (three-phase xor accumulation), every output length
    R.model_check("KdfLoops", "MC_KdfLoops.cfg", need_actions=["Hkdf", "Pbkdf"], workers=2)
    evs = []
    rb = lambda t, n: vlib.prng_bytes(R.seed, "c10/" + t, n)
    # ---- HKDF
    for alg in (["sha256", "sha512", "sha1", "sha3_256", "blake2s"] if thorough else ["sha256", "sha512", "sha1"]):
        hl = HL[alg]
        extra = {"outlen": 32} if alg == "blake2s" else {}
        for i, (sl, il) in enumerate([(0, 22), (13, 22), (80, 80), (hl, 1), (hc.block_of(alg) + 1, 0)]):
            evs.append(dict({"op": "hkdf_extract", "alg": alg, "salt": rb("salt%s%d" % (alg, i), sl), "ikm": rb("ikm%s%d" % (alg, i), il), "n": hl}, **extra))
        Ls = [0, 1, hl - 1, hl, hl + 1, 2 * hl + 1, 255 * hl] + ([3 * hl, 254 * hl + 1] if thorough else [])
        for L in Ls:
            if L == 255 * hl and alg not in ("sha256", "sha1") and not thorough:
                continue
            evs.append(dict({"op": "hkdf_expand", "alg": alg, "prk": rb("prk" + alg, hl), "info": rb("info%s%d" % (alg, L), L % 11), "n": L}, **extra))
        for L in [255 * hl + 1, 255 * hl + hl - 1, 256 * hl, 256 * hl + 1]:
            evs.append(dict({"op": "hkdf_expand", "alg": alg, "prk": rb("prk" + alg, hl), "info": [], "n": L}, **extra))
        # the digest instance handed over has already been used (absorbed input / finalised), with keys on both sides of the block size: the
        # functions reset what they are given, so the result is the same
        bs = hc.block_of(alg)
        for i, (sl, used, fin) in enumerate([(13, 5, False), (bs + 17, 9, False), (bs + 1, 70, True), (bs, 1, True)]):
            evs.append(dict({"op": "hkdf_extract", "alg": alg, "salt": rb("usalt%s%d" % (alg, i), sl), "ikm": rb("uikm%s%d" % (alg, i), 20), "n": hl, "used": rb("used", used), "used_final": fin}, **extra))
            evs.append(dict({"op": "hkdf_expand", "alg": alg, "prk": rb("uprk%s%d" % (alg, i), sl), "info": rb("ui", 3), "n": hl + 3, "used": rb("used", used), "used_final": fin}, **extra))
    # ---- every other digest the generic functions can be instantiated with (block size and output length come from the digest's own trait
    # constants): one extract, one expand across a block boundary of the output, one PBKDF2 with two iterations and a key longer than the block
    main = {"sha256", "sha512", "sha1"} | ({"sha3_256"} if thorough else set())
    for alg in hc.FIXED:
        if alg in main:
            continue
        hl, bs = (hc.MD.get(alg) or hc.SPONGE.get(alg))[2], hc.block_of(alg)
        evs.append({"op": "hkdf_extract", "alg": alg, "salt": rb("dsalt" + alg, 13), "ikm": rb("dikm" + alg, 22), "n": hl})
        evs.append({"op": "hkdf_expand", "alg": alg, "prk": rb("dprk" + alg, hl), "info": rb("dinfo" + alg, 5), "n": hl + 3})
        evs.append({"op": "pbkdf2", "alg": alg, "pw": rb("dpw" + alg, bs + 9 if len(alg) % 2 else 11), "salt": rb("dps" + alg, 7), "c": 2, "n": hl + 1})
    # ---- PBKDF2
    # block indices beyond 2^16 (INT(i) is four octets): a long derived key of which the blocks around the byte boundaries of the index are
    # validated (the blocks are independent of each other, so TLC recomputes only those)
    for alg, c in (("sha1", 1), ("sha256", 2)) + ((("sha512", 1),) if thorough else ()):
        hl = HL[alg]
        nblocks = 65536 + 3
        evs.append({"op": "pbkdf2_blocks", "alg": alg, "pw": rb("pwbig" + alg, 9), "salt": rb("psbig" + alg, 6), "c": c, "n": hl * (nblocks - 1) + 5,
                    "blocks": [1, 255, 256, 257, 65535, 65536, 65537, nblocks]})
    for alg in ("sha1", "sha256", "sha512"):
        hl = HL[alg]
        for c in ([1, 2, 3, 4, 5] if thorough else [1, 2, 3]):
            for n in ([1, hl - 1, hl, hl + 1, 2 * hl, 2 * hl + 1, 3 * hl - 1] if thorough else sorted({1, hl, hl + 1, 2 * hl + 1, R.rng.randrange(2, 3 * hl)})):
                evs.append({"op": "pbkdf2", "alg": alg, "pw": rb("pw%s" % alg, 8 + c), "salt": rb("ps%s" % alg, 4 + n % 9), "c": c, "n": n})
        evs.append({"op": "pbkdf2", "alg": alg, "pw": list(b"password"), "salt": list(b"salt"), "c": 100 if thorough else 40, "n": hl + 5})
        evs.append({"op": "pbkdf2", "alg": alg, "pw": rb("pwlong" + alg, 150), "salt": [], "c": 2, "n": hl + 1})
    # ---- scrypt
    grid = []
    if thorough:
        for logn in range(1, 11):
            for r in (1, 2, 3, 8):
                for p in (1, 2, 4):
                    if (2 ** logn) * r * p <= 2048 and logn < 16 * r:
                        grid.append((logn, r, p))
        grid.append((10, 8, 1))
    else:
        grid = [(1, 1, 1), (2, 1, 2), (3, 2, 1), (4, 1, 1), (4, 3, 2), (2, 8, 1), (3, 1, 4), (8, 1, 1), (R.rng.randrange(1, 5), R.rng.randrange(1, 5), R.rng.randrange(1, 4))]
    dks = [1, 31, 32, 33, 64, 130]
    for i, (logn, r, p) in enumerate(grid):
        for n in (dks if (thorough and (2 ** logn) * r * p <= 64) else [dks[i % 6], dks[(i + 3) % 6]]):
            evs.append({"op": "scrypt", "pw": rb("spw%d" % i, i % 13), "salt": rb("ssalt%d" % i, (i * 7) % 17), "logn": logn, "r": r, "p": p, "n": n})
    hs = []
    for e in evs:
        hs.append({"id": R.next_id(), "cls": "fn", "ev": [e]})
        key = (e["op"], e.get("alg"), e.get("n"), e.get("c"), e.get("logn"), e.get("r"), e.get("p"), len(e.get("salt", [])))
        R.count(key, trivial=(e.get("n") == 0))
    R.rule = ("one call per event: hkdf_extract (5 salt/ikm shapes), hkdf_expand with L in {0,1,HL-1,HL,HL+1,2HL+1,255HL} and over-limit L in {255HL+1,256HL-1,256HL,256HL+1}, pbkdf2 "
              "(HMAC-SHA1/256/512, c small + one larger, dkLen around PRF block multiples), scrypt over a (log2 N, r, p) grid x dkLen from {1,31,32,33,64,130}; "
              "distinct = (function, digest, parameters, output length); non-trivial = output length > 0")
    res = R.conform("TraceKdf", hs, cost=cost_kdf, describe=lambda r, v: {"cls": "fn", "op": r["ev"][0]["op"], "alg": r["ev"][0].get("alg"),
                                                                          "over_limit": r["ev"][0]["op"] == "hkdf_expand" and r["ev"][0]["n"] > 255 * HL.get(r["ev"][0].get("alg"), 32)},
                    timeout=3000 if thorough else 900)
    for r in res["records"][:1] + res["records"][len(hs) // 2:len(hs) // 2 + 2] + res["records"][-2:]:
        e = r["ev"][0]
        R.sample({k: (v if not isinstance(v, list) else "%d bytes" % len(v)) for k, v in e.items() if k != "out"} | {"out": e["out"]["k"] + ":" + vlib.hexs(e["out"]["v"])[:32]})
