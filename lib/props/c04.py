"""C04 - stream position semantics: chunking, involution, seek, clone; the DRG.

MC:  StreamCtx explored exhaustively (block size 4, counter modulus 4, both counter disciplines, two context
     slots, depth 5): every call's output = input XOR position-indexed keystream; processing twice from the same
     position restores the input; cache/counter agree with the absolute position.  Drg: every request returns the
     next keystream bytes whatever the destination held (the pinned fill_* behaviour, DrgFill = "xor", is
     rejected by TLC in ./check selftest).
GEN: the machine at block size 64 prints all behaviours of a shallower tree; one per branch signature + a seeded
     sample is replayed on all five ciphers (x rounds) and on Drg<R>.
TV:  TraceStream recomputes every returned byte from the functional ChaCha/Salsa modules at the tracked position."""
import vlib
from props import hashcommon as hc
from props import streamcommon as sc
from props.c03 import describe


def run(R):
    thorough = R.tier == "thorough"
    R.model_check("StreamCtx", "MC_StreamCtx_wrap.cfg", need_actions=["Proc", "Seek", "Clone", "Twice"], workers=8)
    R.model_check("StreamCtx", "MC_StreamCtx_carry.cfg", need_actions=["Proc", "SetCounter", "Clone", "Twice"], workers=8)
    R.model_check("StreamCtx", "MC_Drg.cfg", need_actions=["DrgBytes", "DrgFillSlice"], workers=4)
    depth = 4 if thorough else 3
    M = 65536
    lens = [0, 1, 63, 64, 65, 129] if thorough else [0, 1, 63, 64, 65, 129]
    inv = ["InvOut", "InvPos", "Emit"]
    cw = hc.write_cfg(R, "GEN_Stream_wrap", {"B": 64, "M": M, "Carry": "FALSE", "MaxOps": depth, "NCtx": 2, "Lens": hc.tla_set(lens), "Seeks": hc.tla_set([0, 1, M - 1]),
                                             "DrgFill": '"overwrite"', "Gen": "TRUE"}, inv, nxt="NextGen")
    cc = hc.write_cfg(R, "GEN_Stream_carry", {"B": 64, "M": M, "Carry": "TRUE", "MaxOps": depth, "NCtx": 2, "Lens": hc.tla_set(lens), "Seeks": hc.tla_set([1, M - 1]),
                                              "DrgFill": '"overwrite"', "Gen": "TRUE"}, inv, nxt="NextGen")
    cd = hc.write_cfg(R, "GEN_Drg", {"B": 64, "M": M, "Carry": "FALSE", "MaxOps": depth, "NCtx": 1, "Lens": hc.tla_set([0, 1, 4, 8, 63, 64, 65, 129] if thorough else [0, 1, 4, 63, 64, 65, 129]), "Seeks": "{0}",
                                     "DrgFill": '"overwrite"', "Gen": "TRUE"}, inv, nxt="NextDrg")
    bw = R.generate("StreamCtx", cw, xmx="10g")
    bc = R.generate("StreamCtx", cc, xmx="10g")
    bd = R.generate("StreamCtx", cd, xmx="10g")
    per = 400 if thorough else 14
    hs = []
    sigs = 0
    for variant, (nl, keylens, wide) in sc.VARIANTS.items():
        for rounds in sc.ROUNDS:
            kl = keylens[(rounds // 4) % len(keylens)]
            chosen, nu = hc.select(R, bc if wide else bw, per)
            sigs += nu
            for h in chosen:
                tag = "%s/%d/%d" % (variant, rounds, kl)
                rec = sc.concretise(R, h, sc.base(R, variant, rounds, kl, tag), M, tag)
                hs.append(rec)
                R.count((variant, rounds, hc.signature(h)))
            # involution: two clones at the same position, the second processes the first one's output
            for n in ([1, 64, 65, 200] if thorough else [65]):
                b = sc.base(R, variant, rounds, kl, "inv/%s/%d" % (variant, rounds))
                b["id"] = R.next_id()
                d0 = vlib.prng_bytes(R.seed, "inv0", 37)
                d = vlib.prng_bytes(R.seed, "inv/%s/%d/%d" % (variant, rounds, n), n)
                b["ev"] = [{"op": "new"}, {"op": "process", "x": 1, "data": d0}, {"op": "clone", "x": 1, "y": 2}, {"op": "process", "x": 1, "data": d},
                           {"op": "process_mut", "x": 2, "data_from": 4}]
                hs.append(b)
                R.count((variant, rounds, "involution", n))
    # single calls longer than any internal window (a bulk path that handles 4 KiB or 8 blocks at a time): from a fresh context and from mid-block
    for variant, (nl, keylens, wide) in sc.VARIANTS.items():
        for op in ("process", "process_mut"):
            for pre, n in ((0, 4097), (1, 5000)) if not thorough else ((0, 4096), (0, 4097), (1, 5000), (63, 8193), (64, 12289)):
                b = sc.base(R, variant, 20 if op == "process" else 8, keylens[-1], "long/%s/%s" % (variant, op))
                b["id"] = R.next_id()
                d = vlib.prng_bytes(R.seed, "long/%s/%d" % (variant, n), n + pre)
                b["ev"] = [{"op": "new"}] + ([{"op": "process_mut", "x": 1, "data": d[:pre]}] if pre else []) + [{"op": op, "x": 1, "data": d[pre:]}, {"op": "process", "x": 1, "data": d[:7]}]
                hs.append(b)
                R.count((variant, op, "long", pre, n))
    # ---- position matrix: (where the context stood) x (where it is sent, once or twice in a row) x (what is asked next, incl. calls of 8 blocks
    # and more from mid-block), every combination for one (variant, rounds) per counter discipline, a seeded part for the others
    plens = [0, 1, 63, 65, 513]
    pw = hc.write_cfg(R, "GENP_Stream_wrap", {"B": 64, "M": M, "Carry": "FALSE", "MaxOps": 5, "NCtx": 1, "Lens": hc.tla_set(plens), "Seeks": hc.tla_set([0, 1, 2, M - 1]),
                                              "DrgFill": '"overwrite"', "Gen": "TRUE"}, ["EmitPos"], nxt="NextGen", constraints=["PosShape"])
    pc = hc.write_cfg(R, "GENP_Stream_carry", {"B": 64, "M": M, "Carry": "TRUE", "MaxOps": 5, "NCtx": 1, "Lens": hc.tla_set([1, 65, 513]), "Seeks": hc.tla_set([1, 2, M - 1]),
                                               "DrgFill": '"overwrite"', "Gen": "TRUE"}, ["EmitPos"], nxt="NextGen", constraints=["PosShape"])
    posw = R.generate("StreamCtx", pw, xmx="10g")
    posc = R.generate("StreamCtx", pc, xmx="10g")
    npos = 0
    for variant, (nl, keylens, wide) in sc.VARIANTS.items():
        for rounds in sc.ROUNDS:
            full = rounds == 20 and variant in ("ietf", "salsa")
            frac = 1.0 if thorough else ((0.5 if variant == "ietf" else 0.25) if full else 0.02)
            for h in (posc if wide else posw):
                if frac < 1 and R.rng.random() >= frac:
                    continue
                # a history is kept if it fits the budget of blocks TLC has to recompute
                if sum(e.get("len", 0) for e in h) > 1100:
                    continue
                tag = "pos/%s/%d" % (variant, rounds)
                hs.append(sc.concretise(R, h, sc.base(R, variant, rounds, keylens[-1], tag), M, tag))
                npos += 1
                R.count((variant, rounds, "pos", hc.signature(h)))
    R.extra["position_matrix_histories"] = npos
    for rounds in sc.ROUNDS:
        chosen, nu = hc.select(R, bd, per * 2)
        sigs += nu
        for h in chosen:
            rec = sc.concretise(R, h, {"cls": "drg", "rounds": rounds, "seed": vlib.prng_bytes(R.seed, "drgseed/%d" % rounds, 32)}, M, "drg")
            # u32 / u64 requests interleaved
            if rec["id"] % 2:
                rec["ev"].insert(2, {"op": "u32"})
                rec["ev"].append({"op": "u64"})
            hs.append(rec)
            R.count(("drg", rounds, hc.signature(h)))
    R.extra["distinct_branch_signatures_generated"] = sigs
    R.rule = ("behaviours printed by TLC from StreamCtx at block size 64 (depth %d): per (variant, rounds) one per new (op,branch)/(branch,next) pair + seeded sample up to %d; "
              "involution histories; DRG behaviours with seeded / all-ones / zero prior buffer contents; distinct = (variant, rounds, branch signature)" % (depth, per))
    res = R.conform("TraceStream", hs, cost=sc.cost_stream, describe=describe)
    for r in res["records"][:2] + res["records"][-3:]:
        R.sample({"cls": r["cls"], "variant": r.get("variant"), "rounds": r["rounds"],
                  "history": [(e["op"], e.get("x"), len(e.get("data", e.get("prior", []))) or e.get("n") or str(e.get("block", ""))) for e in r["ev"]],
                  "verdict": res["verdicts"][r["id"]][0]})
    R.assumptions += ["exhaustiveness is over call sequences and length classes; keys, nonces, data are seeded"]
