"""C07 - AEAD decryption accepts a message only if its tag is the correct one.

MC:  AeadCtx (MAC input stream for every partition) - the tag, and hence the verdict, depends only on (aad, ct).
TV:  valid tuples are first produced by the implementation (and validated, as in C06); then every mutation
     {each of the 128 tag bits; multi-byte tag changes with cancelling XOR deltas and with equal sums; sampled bits of
     ciphertext, AAD, nonce, key; truncation / extension of the ciphertext; moving k bytes across the AAD|ciphertext
     boundary; swapping the roles of the two lengths} is fed to the one-shot decrypt and to the incremental decryption
     (random partitions); TLC recomputes the RFC 8439 tag of exactly the mutated inputs and demands
     verdict = (supplied tag = that tag) from both interfaces.  No "mutations must fail" assumption is made."""
import vlib
from props import aeadcommon as ac


def flip(b, i):
    b = list(b)
    b[i // 8] ^= 1 << (i % 8)
    return b


def run(R):
    thorough = R.tier == "thorough"
    R.model_check("AeadCtx", "MC_AeadCtx.cfg", need_actions=["AddData", "ToEnc", "ToDec", "Enc", "Dec", "Finalize"], workers=4)
    bases = [(20, 32, 12, 40), (20, 16, 0, 17), (20, 32, 17, 0), (12, 32, 5, 64)] + ([(8, 16, 33, 100), (20, 32, 16, 16), (20, 16, 1, 1), (12, 16, 64, 64), (20, 32, 15, 257), (8, 32, 129, 31), (20, 32, 0, 0), (20, 16, 300, 5)] if thorough else [])
    enc = []
    meta = {}
    for (rounds, kl, a, p) in bases:
        t = "%d/%d/%d/%d" % (rounds, kl, a, p)
        key, nonce = vlib.prng_bytes(R.seed, "c07key/" + t, kl), vlib.prng_bytes(R.seed, "c07nonce/" + t, 12)
        aad, pt = vlib.prng_bytes(R.seed, "c07aad/" + t, a), vlib.prng_bytes(R.seed, "c07pt/" + t, p)
        h = ac.one_history(R, rounds, key, nonce, aad, pt, "enc")
        enc.append(h)
        meta[h["id"]] = (rounds, key, nonce, aad)
    # tuples whose ciphertext drives the tag computation through the rare carry / select classes of the Poly1305 limb code (see aeadcommon.crafted_cases)
    crafted = [] if R.collect else ac.crafted_cases(R, 3 if thorough else 1, "c07")
    light = set()
    for (rounds, key, nonce, aad, pt, cls, otk, macdata) in crafted:
        h = ac.one_history(R, rounds, key, nonce, aad, pt, "enc")
        enc.append(h)
        meta[h["id"]] = (rounds, key, nonce, aad)
        light.add(h["id"])
    res = R.conform("TraceAead", enc, cost=ac.cost_aead, describe=ac.describe, label="TraceAead.valid")
    ac.confirm_crafted(R, crafted)
    dec = []

    def add(rounds, key, nonce, aad, ct, tag, label):
        dec.append(ac.one_history(R, rounds, key, nonce, aad, ct, "dec", tag))
        dec.append(ac.inc_history(R, rounds, key, nonce, aad, ct, "dec", tag, k_aad=R.rng.choice([1, 2]), k_data=R.rng.choice([1, 2, 3])))
        R.count((label, rounds, len(key), len(aad), len(ct)), trivial=False)

    for bi, r in enumerate(res["records"]):
        if r["ev"][1]["out"]["k"] != "v":
            continue
        rounds, key, nonce, aad = meta[r["id"]]
        o = r["ev"][1]["out"]["v"]
        ct, tag = o[:len(o) - 16], o[len(o) - 16:]
        add(rounds, key, nonce, aad, ct, tag, "valid%d" % bi)
        if r["id"] in light:               # crafted tuples: the valid tuple, a few tag bits, one ciphertext bit in the crafted blocks
            for i in R.rng.sample(range(128), 3) + [0, 127]:
                add(rounds, key, nonce, aad, ct, flip(tag, i), "crafted-tagbit%d/%d" % (bi, i))
            add(rounds, key, nonce, aad, flip(ct, 8 * len(ct) - 1), tag, "crafted-ctbit%d" % bi)
            continue
        # every bit of the tag (first base: all 128; others: sampled in quick)
        bits = range(128) if (bi == 0 or thorough) else sorted(R.rng.sample(range(128), 12))
        for i in bits:
            add(rounds, key, nonce, aad, ct, flip(tag, i), "tagbit%d/%d" % (bi, i))
        # structured tag forgeries: cancelling XOR deltas, byte swaps, sum-preserving changes, all-zero / all-ones tags
        for (i, j, d) in [(0, 1, 1), (3, 12, 0x80), (15, 14, 0xff), (7, 8, 0x10)]:
            t2 = list(tag); t2[i] ^= d; t2[j] ^= d
            add(rounds, key, nonce, aad, ct, t2, "tagxor%d/%d-%d" % (bi, i, j))
            t3 = list(tag); t3[i] = (t3[i] + 1) % 256; t3[j] = (t3[j] - 1) % 256
            add(rounds, key, nonce, aad, ct, t3, "tagsum%d/%d-%d" % (bi, i, j))
        # a comparison that folds the tag in words (xor / add of the per-word differences) is blind to a difference repeated in every word:
        # the same delta in both 8-byte halves, in all four 4-byte words, in all eight 2-byte words, in every byte; halves / words swapped
        for w in (8, 4, 2, 1):
            for k in range(2 if bi else 3):
                delta = [R.rng.randrange(1, 256) if (k or q == w - 1) else 0 for q in range(w)] if k < 2 else [0] * (w - 1) + [1 << R.rng.randrange(8)]
                t5 = [tag[q] ^ delta[q % w] for q in range(16)]
                add(rounds, key, nonce, aad, ct, t5, "tagrep%d/w%d/%d" % (bi, w, k))
        for w in (8, 4):
            t6 = [b for q in reversed(range(16 // w)) for b in tag[q * w:(q + 1) * w]]
            add(rounds, key, nonce, aad, ct, t6, "tagwordswap%d/w%d" % (bi, w))
        if bi == 0:
            for i in range(64):         # bit i together with bit i + 64
                add(rounds, key, nonce, aad, ct, flip(flip(tag, i), i + 64), "tagbitpair%d/%d" % (bi, i))
        t4 = list(tag); t4[0], t4[15] = t4[15], t4[0]
        add(rounds, key, nonce, aad, ct, t4, "tagswap%d" % bi)
        add(rounds, key, nonce, aad, ct, [0] * 16, "tagzero%d" % bi)
        add(rounds, key, nonce, aad, ct, tag[1:] + tag[:1], "tagrot%d" % bi)
        ns = 40 if thorough else 3
        for i in (R.rng.sample(range(8 * len(ct)), min(ns, 8 * len(ct))) if ct else []):
            add(rounds, key, nonce, aad, flip(ct, i), tag, "ctbit%d/%d" % (bi, i))
        for i in (R.rng.sample(range(8 * len(aad)), min(ns, 8 * len(aad))) if aad else []):
            add(rounds, key, nonce, flip(aad, i), ct, tag, "aadbit%d/%d" % (bi, i))
        for i in R.rng.sample(range(96), ns):
            add(rounds, key, flip(nonce, i), aad, ct, tag, "noncebit%d/%d" % (bi, i))
        for i in R.rng.sample(range(8 * len(key)), ns):
            add(rounds, flip(key, i), nonce, aad, ct, tag, "keybit%d/%d" % (bi, i))
        # truncation / extension
        if ct:
            add(rounds, key, nonce, aad, ct[:-1], tag, "trunc%d" % bi)
        add(rounds, key, nonce, aad, ct + [0], tag, "extend%d" % bi)
        add(rounds, key, nonce, aad + [0], ct, tag, "aadextend%d" % bi)
        # move bytes across the aad | ciphertext boundary (same concatenation, different split)
        for k in (1, 2, 16):
            if len(aad) >= k:
                add(rounds, key, nonce, aad[:-k], aad[-k:] + ct, tag, "aad>ct%d/%d" % (bi, k))
            if len(ct) >= k:
                add(rounds, key, nonce, aad + ct[:k], ct[k:], tag, "ct>aad%d/%d" % (bi, k))
        # swap the roles of the two lengths: |aad'| = |ct|, |ct'| = |aad| over the same byte string
        s = aad + ct
        add(rounds, key, nonce, s[:len(ct)], s[len(ct):], tag, "lenswap%d" % bi)
    res2 = R.conform("TraceAead", dec, cost=ac.cost_aead, describe=ac.describe, label="TraceAead.mut")
    acc = sum(1 for r in res2["records"] if r["ev"][-1]["out"]["v"][:1] == [1])
    R.extra["accepted_tuples"] = acc
    R.extra["rejected_tuples"] = len(res2["records"]) - acc
    R.rule = ("valid tuples from the implementation (validated), then per mutated tuple one one-shot decrypt and one incremental decryption with seeded partitions; mutations: all 128 tag bits "
              "(first tuple; sampled for the others in quick), tag XOR-cancelling / sum-preserving / swapped / rotated / zero forgeries, sampled bits of ct, aad, nonce, key, truncate/extend, "
              "moving 1/2/16 bytes across the aad|ct boundary, swapping the two lengths; distinct = (mutation, tuple)")
    for r in res2["records"][:2] + res2["records"][20:22] + res2["records"][-2:]:
        R.sample({"cls": r["cls"], "aad_len": len(r.get("aad", [])), "calls": [(e["op"], len(e.get("data", []))) for e in r["ev"]], "verdict_out": r["ev"][-1]["out"]["v"][:1]})
