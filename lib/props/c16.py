"""C16 - vectorised and portable code paths compute identical results.

MC:  Dispatch.tla - the compile-time dispatch of impl256::digest_block with the 8-way (AVX), 4-way (SSE4.1) and
     scalar loops underneath FixedBuffer::input, exhaustively for every buffer state x call length 0..20 blocks (+1)
     at each of the three levels: the compressed block list is always Chop(fed) (batching refines sequential
     compression).
TV:  the same operation scripts are executed by four differently compiled harness binaries (baseline = portable
     SHA-256 / BLAKE2 + SSE2 ChaCha; +sse4.1; +avx; +avx2) and, through the hook, by the portable ChaCha engine:
       A. targeted workload: SHA-256/224 updates of 1..20 blocks from slices at byte offsets 0..31 on top of three
          chaining/buffer states; keyed/unkeyed BLAKE2b/BLAKE2s messages of 0..5 blocks (so compressions with and
          without the last-block flag) with the context stored at three placements; ChaCha-family encryption at
          input/output offsets; native and portable engine queries for every key/nonce length.
          Every build's trace is validated against the functional specification (TraceHash / TraceStream), and the
          four traces are validated in lock-step by the product specification TraceEquiv.
       B. general workload: the scripts of the other hash/MAC/cipher/KDF properties, executed by all four builds,
          validated by TraceEquiv (their functional validation on the baseline build is those properties' own check)."""
import vlib
from props import hashcommon as hc
from props import streamcommon as sc

TAGS = ["rel", "sse41", "avx", "avx2"]


def describe(r, v):
    e = r["ev"][v[1] - 1] if 0 < v[1] <= len(r["ev"]) else {}
    d = {"cls": r.get("cls"), "op": e.get("op")}
    for k in ("alg", "variant", "mac"):
        if k in r:
            d[k] = r[k]
    if r.get("cls") == "engine":
        d.update({"engine": e.get("engine"), "keylen": len(e.get("key", []))})
    return d


def targeted(R, thorough):
    hs_hash, hs_stream = [], []
    # ---- SHA-256 / SHA-224: k blocks at offset off, on top of a chaining/buffer state made by a prefix
    offs_all = list(range(32))
    for alg in ("sha256", "sha224"):
        for pre in (0, 64, 37):
            for k in range(1, 21):
                for off in (offs_all if alg == "sha256" else [0, 1, 4, 8, 15, 16, 31]):
                    n = 64 * k + (0 if (k + off) % 3 else 5)       # every third case leaves a tail in the buffer
                    data = vlib.prng_bytes(R.seed, "c16/%s/%d/%d" % (alg, pre, k), n)
                    ev = [{"op": "new"}]
                    if pre:
                        ev.append({"op": "update_mut", "x": 1, "data": vlib.prng_bytes(R.seed, "c16pre/%d" % pre, pre)})
                    ev += [{"op": "update_mut" if off % 2 else "update", "x": 1, "data": data, "off": off}, {"op": "finalize", "x": 1}]
                    hs_hash.append({"id": R.next_id(), "cls": "hash", "alg": alg, "ev": ev, "core": off in (0, 1, 8, 31)})
                    R.count((alg, pre, k, off))
        # one-shot on long messages (several 8-way batches + 4-way + scalar tail)
        for n in ([64 * 29, 64 * 29 + 3, 64 * 45 + 63] if thorough else [64 * 29 + 3]):
            hs_hash.append({"id": R.next_id(), "cls": "hash", "alg": alg, "core": True,
                            "ev": [{"op": "oneshot", "data": vlib.prng_bytes(R.seed, "c16long/%s" % alg, n), "off": 3}]})
            R.count((alg, "oneshot", n))
    # ---- BLAKE2: keyed / unkeyed, with and without the last-block flag, three placements of the context
    for alg in ("blake2b", "blake2s"):
        b, mo, mk = hc.BLAKE[alg]
        for kl in (0, 1, mk):
            for n in (0, 1, b - 1, b, b + 1, 2 * b, 2 * b + 1, 3 * b, 5 * b + 7):
                for place in (0, 1, 3):
                    off = (n + place + kl) % 32
                    outlen = mo if (n + kl) % 2 == 0 else R.rng.randrange(1, mo + 1)
                    h = {"id": R.next_id(), "cls": "hash", "alg": alg, "api": "dyn", "outlen": outlen, "key": vlib.prng_bytes(R.seed, "c16k/" + alg, kl),
                         "place": place, "core": True}
                    data = vlib.prng_bytes(R.seed, "c16/%s/%d/%d" % (alg, kl, n), n)
                    cut = n // 2
                    h["ev"] = [{"op": "new"}, {"op": "update_mut", "x": 1, "data": data[:cut], "off": off},
                               {"op": "clone", "x": 1, "y": 2}, {"op": "update_mut", "x": 2, "data": data[cut:], "off": (off + 7) % 32},
                               {"op": "finalize_reset", "x": 2}, {"op": "update_mut", "x": 1, "data": data[cut:]}, {"op": "finalize", "x": 1}]
                    hs_hash.append(h)
                    R.count((alg, kl, n, place))
    # ---- ChaCha family: encryption at input / output offsets (the SSE2 engine compiled with and without VEX encodings)
    for variant in ("ietf", "xchacha", "original", "salsa", "xsalsa"):
        nl, keylens, wide = sc.VARIANTS[variant]
        for rounds in sc.ROUNDS:
            for kl in keylens:
                for (n, off, ooff) in ((1, 1, 0), (63, 0, 3), (64, 16, 16), (65, 31, 1), (200, 5, 32 - 5), (257, 0, 0)):
                    h = sc.base(R, variant, rounds, kl, "c16/%s/%d/%d" % (variant, rounds, kl))
                    h["id"] = R.next_id()
                    h["core"] = variant in ("ietf", "original") and n in (65, 200)
                    d = vlib.prng_bytes(R.seed, "c16s/%s/%d" % (variant, n), n)
                    h["ev"] = [{"op": "new"}, {"op": "process", "x": 1, "data": d, "off": off, "ooff": ooff}, {"op": "process_mut", "x": 1, "data": d[: n // 2 + 1], "off": ooff}]
                    hs_stream.append(h)
                    R.count((variant, rounds, kl, n, off))
    return hs_hash, hs_stream


def run(R):
    thorough = R.tier == "thorough"
    R.model_check("Dispatch", "MC_Dispatch_ref.cfg", need_actions=["UpdNone", "UpdRef"], workers=2)
    R.model_check("Dispatch", "MC_Dispatch_sse41.cfg", need_actions=["UpdRef", "UpdSse"], workers=2)
    R.model_check("Dispatch", "MC_Dispatch_avx.cfg", need_actions=["UpdRef", "UpdSse", "UpdAvx", "UpdAll"], workers=2)
    vlib.build_many(TAGS)
    hs_hash, hs_stream = targeted(R, thorough)
    # ---- A: every build against the functional specification (quick: the core subset on the non-baseline builds), all builds in lock-step
    for (tm, hs, cost) in (("TraceHash", hs_hash, hc.cost_hash), ("TraceStream", hs_stream, sc.cost_stream)):
        by = {}
        for t in TAGS:
            recs = R.drive_on(hs, t, "A.%s.%s" % (tm, t))
            by[t] = recs
            sel = recs if (thorough or t == "rel") else [r for r in recs if r.get("core")]
            R.judge(tm, sel, t, describe=describe, label="A.%s.%s" % (tm, t), cost=cost, timeout=3000)
        R.equiv(by, "A.equiv.%s" % tm, describe=describe)
        for r in by["avx2"][:2] + by["avx2"][-1:]:
            R.sample({"cls": r["cls"], "alg": r.get("alg", r.get("variant")), "events": [(e["op"], len(e.get("data", [])), e.get("off"), vlib.hexs(e["out"]["v"])[:32]) for e in r["ev"]][:5],
                      "builds": TAGS})
    # counters preset next to every word / half-word boundary (C20's scripts: BLAKE2b/s byte counters incl. t0 >= 2^31, cipher block counters,
    # Merkle-Damgard length counters) through every vector build: a vectorised counter load with the wrong lane width or a sign extension only
    # shows beyond 2 GiB of input
    from props import c20
    ch, cs = c20.counter_scripts(R, thorough)
    extra31 = []
    for alg, w in (("blake2s", 32), ("blake2b", 64)):
        b = hc.BLAKE[alg][0]
        for t0 in ((1 << (w - 1)) - b, (1 << (w - 1)) - 1, 1 << (w - 1), (1 << w) - 2 * b):
            data = vlib.prng_bytes(R.seed, "c16ctr/%s" % alg, 3 * b + 9)
            extra31.append({"id": R.next_id(), "cls": "hash", "alg": alg, "api": "dyn", "outlen": hc.BLAKE[alg][1], "key": [],
                            "ev": [{"op": "new"}, {"op": "set_counter", "x": 1, "t0": c20.limbs(t0), "t1": c20.limbs(5)}, {"op": "update_mut", "x": 1, "data": data},
                                   {"op": "finalize", "x": 1}]})
            R.count((alg, "counter-half-word", t0.bit_length()))
    for (tm, hh, cost) in (("TraceHash", ch + extra31, hc.cost_hash), ("TraceStream", cs, sc.cost_stream)):
        byk = {t: R.drive_on(hh, t, "K.%s.%s" % (tm, t)) for t in TAGS}
        for t in TAGS:
            R.judge(tm, byk[t], t, describe=describe, label="K.%s.%s" % (tm, t), cost=cost, timeout=2000)
        R.equiv(byk, "K.equiv." + tm, describe=describe)
    # the engine queries of C03 (native and portable engine, every key / nonce length, counter boundary) on every build
    mods = ["c03", "c01", "c05", "c06", "c08", "c10"] + (["c02", "c04", "c07", "c09", "c11"] if thorough else [])
    for m in mods:
        for w in vlib.collect_workload(R, m, "quick"):
            by = {"rel": w["records"]}
            for t in TAGS[1:]:
                by[t] = R.drive_on(w["histories"], t, "B.%s.%s.%s" % (m, w["label"], t))
            R.equiv(by, "B.equiv.%s.%s" % (m, w["label"]), describe=describe)
            if m == "c03":
                # the engine class is part of the claim itself (portable vs SSE2 engine): functional validation on every build
                for t in TAGS[1:]:
                    R.judge(w["trace_module"], [r for r in by[t] if r["cls"] == "engine"], t, describe=describe, label="B.c03.engine." + t, cost=w["cost"])
            for r in w["records"]:
                R.count((m, r["id"]))
    R.rule = ("A: SHA-256 x {IV, chained, partial-buffer state} x 1..20 blocks x offsets 0..31 (SHA-224: 7 offsets); BLAKE2b/s x key {0,1,max} x "
              "9 lengths x 3 placements; 5 cipher variants x 3 rounds x key lengths x 6 (length, in-offset, out-offset); each on builds "
              + "/".join(TAGS) + ", validated functionally (" + ("all builds fully" if thorough else "baseline fully, others on the core subset") +
              ") and in lock-step; B: workloads of " + ",".join(mods) + " on all builds in lock-step. distinct = script identity")
    R.assumptions += ["the host CPU supports SSE4.1, AVX and AVX2 (the builds execute natively)",
                      "the AArch64 paths are out of reach on this host",
                      "message contents are seeded samples; exhaustiveness is over block counts, alignments, states and parameter shapes"]
