"""C05 - Poly1305 returns the specified tag for every key and message.

MC:  the Poly1305 object machine (staging buffer, leftover, finalized) explored exhaustively over all input splits.
TV:  keys {seeded, all-ones, r in {0..5} with seeded / all-ones s, every clamped bit position set} x messages
     {every length 0..80 (thorough; boundary set in quick), RFC 8439 A.3-style wrap-around blocks, saturating 0xff /
     0xfb... blocks under small r, seeded up to 4 KiB} x chunkings (whole, byte-wise, TLC-generated splits);
     TLC recomputes ((sum block_i * r^(n-i)) mod 2^130-5 + s) mod 2^128 in BigNat arithmetic."""
import vlib
from props import hashcommon as hc
from props import maccommon as mc

P = (1 << 130) - 5


def le(n, k):
    return list(n.to_bytes(k, "little"))


def run(R):
    thorough = R.tier == "thorough"
    R.model_check("MacObj", "MC_MacObj_poly.cfg", need_actions=["Input", "Result", "Reset", "Clone"], workers=8)
    keys = []
    rnd = lambda t: vlib.prng_bytes(R.seed, "c05key/" + t, 32)
    keys.append(("seeded0", rnd("0")))
    keys.append(("seeded1", rnd("1")))
    keys.append(("allones", [255] * 32))
    keys.append(("zero", [0] * 32))
    for r in range(0, 6):
        keys.append(("r=%d,s=seeded" % r, le(r, 16) + rnd("s%d" % r)[:16]))
    keys.append(("r=1,s=ones", le(1, 16) + [255] * 16))
    keys.append(("r=2,s=ones", le(2, 16) + [255] * 16))
    keys.append(("r=max,s=ones", le(0x0ffffffc0ffffffc0ffffffc0fffffff, 16) + [255] * 16))
    # each of the 22 clamped bit positions set on top of a seeded key (r must be clamped by the implementation)
    clamped = [8 * i + b for i in (3, 7, 11, 15) for b in (4, 5, 6, 7)] + [8 * i + b for i in (4, 8, 12) for b in (0, 1)]
    base = rnd("clamp")
    for bit in (clamped if thorough else clamped[::4]):
        k = list(base)
        k[bit // 8] |= 1 << (bit % 8)
        keys.append(("clampbit%d" % bit, k))
    hs = []

    def add(kname, key, msg, chunks, label):
        ev = [{"op": "new"}]
        pos = 0
        for c in chunks:
            ev.append({"op": "input", "x": 1, "data": msg[pos:pos + c]})
            pos += c
        if pos < len(msg) or not chunks:
            ev.append({"op": "input", "x": 1, "data": msg[pos:]})
        ev.append({"op": "raw_result" if len(hs) % 2 else "result", "x": 1})
        hs.append({"id": R.next_id(), "cls": "mac", "mac": "poly1305", "key": key, "ev": ev})
        R.count((kname, label, len(msg), tuple(chunks)), trivial=(len(msg) == 0))

    lens = list(range(0, 81)) if thorough else [0, 1, 15, 16, 17, 31, 32, 33, 47, 48, 49, 63, 64, 65, 80]
    msgstream = vlib.prng_bytes(R.seed, "c05msg", 4096)
    for i, (kname, key) in enumerate(keys):
        for n in (lens if (thorough or i < 3) else lens[i % 3::3]):
            add(kname, key, msgstream[:n], [], "len")
    # wrap-around material: blocks that push the accumulator to / beyond 2^130-5 and saturate limbs
    specials = []
    for nb in range(1, 9):
        specials.append([255] * (16 * nb))
    specials.append(le(P & ((1 << 128) - 1), 16))                  # low 128 bits of p
    specials.append([0xfb] + [255] * 15)                            # 2^128 - 5: + hibit = 2^129 - 5
    specials.append([0xfa] + [255] * 15 + [0xfb] + [255] * 15)
    specials.append([255] * 16 + [0xfb] + [255] * 15 + [1] + [0] * 15)
    specials.append([2] + [0] * 15)
    specials.append([255] * 47)
    specials.append([255] * 33)
    specials.append([0] * 64)
    for kname, key in keys:
        if kname.startswith("r=") or kname in ("allones", "zero", "seeded0"):
            for j, m in enumerate(specials):
                add(kname, key, m, [], "special%d" % j)
    # chunkings: byte-wise and TLC-generated splits (MacObj at the real staging-buffer size 16)
    depth = 4 if thorough else 3
    cfg = hc.write_cfg(R, "GEN_MacObj_poly", {"Kind": '"poly"', "B": 16, "MaxOps": depth, "NCtx": 1, "Lens": hc.tla_set([0, 1, 15, 16, 17, 33]),
                                             "PolyFinish": '"always"', "ResetKeeps": '"keep"', "Gen": "TRUE"}, ["InvResult", "InvInput", "Emit"])
    behs = [b for b in R.generate("MacObj", cfg) if all(e["op"] in ("input", "result", "raw_result") for e in b) and b[-1]["op"] != "input"
            and sum(1 for e in b if e["op"] != "input") == 1]
    chosen, nsig = hc.select(R, behs, 400 if thorough else 40)
    for b in chosen:
        rec = mc.concretise(R, b, {"cls": "mac", "mac": "poly1305", "key": keys[len(hs) % 3][1]}, "c05")
        hs.append(rec)
        R.count(("split", hc.signature(b)))
    for n in ([33, 48, 80] if thorough else [33]):
        add("seeded0", keys[0][1], msgstream[:n], [1] * n, "bytewise")
    if thorough:
        # seeded keys x seeded lengths, and every length 0..300 for one key
        for i in range(300):
            add("rand%d" % i, rnd("rand%d" % i), msgstream[:R.rng.randrange(0, 400)], [], "rand")
        for n in range(81, 301):
            add("seeded0", keys[0][1], msgstream[:n], [R.rng.randrange(1, n)], "len")
    for n in ([1000, 4096] if thorough else [1024]):
        add("seeded1", keys[1][1], msgstream[:n], [5, 16, 29, 64, 100], "long")
    # inputs crafted for every carry / wrap / select branch of the 26-bit-limb code (Poly1305Donna.tla names the branches); each
    # crafted message is fed whole and in two pieces
    from props import polycraft
    crafted = []
    for cls in polycraft.CLASSES:
        for j in range(40 if thorough else 2):
            r = polycraft.craft(cls, R.rng)
            if r is None:
                raise vlib.ToolError("no Poly1305 input of class %s could be crafted" % cls)
            crafted.append((cls, r[0], r[1]))
            add("crafted:" + cls, r[0], r[1], [], "crafted")
            add("crafted:" + cls, r[0], r[1], [7], "crafted-split")
    # the object computes the tag of what it was fed since its creation OR its last reset, and reads it out any number of times: a second message
    # after reset whose tail is shorter than the first one's (a final block padded with what the staging buffer still holds), with and without a
    # result in between; the result read twice through both accessors
    for j, (t1, t2) in enumerate([(15, 1), (9, 3), (14, 13), (5, 4), (15, 14), (7, 0)] + ([(a, b) for a in range(1, 16) for b in range(0, a)] if thorough else [])):
        key = rnd("reuse%d" % j)
        m1 = msgstream[100:100 + 16 * (j % 3) + t1]
        m2 = msgstream[300:300 + 16 * ((j + 1) % 3) + t2]
        for between in ([], [{"op": "result", "x": 1}]):
            ev = [{"op": "new"}, {"op": "input", "x": 1, "data": m1}] + between + [{"op": "reset", "x": 1}, {"op": "input", "x": 1, "data": m2}, {"op": "raw_result", "x": 1},
                  {"op": "result", "x": 1}, {"op": "raw_result", "x": 1}]
            hs.append({"id": R.next_id(), "cls": "mac", "mac": "poly1305", "key": key, "ev": ev})
            R.count(("reuse", t1, t2, len(between)))
    for j, n in enumerate([0, 16, 5, 32, 33]):
        for first, second in (("result", "result"), ("raw_result", "result"), ("result", "raw_result")):
            hs.append({"id": R.next_id(), "cls": "mac", "mac": "poly1305", "key": rnd("twice%d" % j),
                       "ev": [{"op": "new"}, {"op": "input", "x": 1, "data": msgstream[:n]}, {"op": first, "x": 1}, {"op": second, "x": 1}]})
            R.count(("twice", n, first, second))
    # the tag written into a caller's buffer longer than the tag (legal for Poly1305: the first 16 bytes are written), and into one that is too short
    for j, n in enumerate([17, 20, 32, 64, 15]):
        hs.append({"id": R.next_id(), "cls": "mac", "mac": "poly1305", "key": rnd("rawlen%d" % j),
                   "ev": [{"op": "new"}, {"op": "input", "x": 1, "data": msgstream[:21 + j]}, {"op": "raw_result", "x": 1, "n": n}]})
        R.count(("raw_result-buffer", n))
    # clones: taken mid-message (with bytes staged) both copies continue independently; taken after the tag was read the copy returns the same tag
    for j, (n1, n2) in enumerate([(5, 20), (16, 7), (33, 0), (0, 17)]):
        k = rnd("clone%d" % j)
        a, b = msgstream[500:500 + n1], msgstream[600:600 + n2]
        hs.append({"id": R.next_id(), "cls": "mac", "mac": "poly1305", "key": k,
                   "ev": [{"op": "new"}, {"op": "input", "x": 1, "data": a}, {"op": "clone", "x": 1, "y": 2}, {"op": "input", "x": 2, "data": b}, {"op": "result", "x": 2},
                          {"op": "input", "x": 1, "data": b[::-1]}, {"op": "raw_result", "x": 1}]})
        hs.append({"id": R.next_id(), "cls": "mac", "mac": "poly1305", "key": k,
                   "ev": [{"op": "new"}, {"op": "input", "x": 1, "data": a + b}, {"op": "result", "x": 1}, {"op": "clone", "x": 1, "y": 2}, {"op": "result", "x": 2}, {"op": "raw_result", "x": 2},
                          {"op": "raw_result", "x": 1}]})
        R.count(("clone", n1, n2))
    # the same classes under keys of full size (every limb of r in play): the block before last is solved backwards from the final accumulator wanted,
    # for messages of two to four blocks with and without a trailing block
    for cls in polycraft.GENERIC_CLASSES:
        for j in range(12 if thorough else 2):
            key = rnd("gk/%s/%d" % (cls, j))
            prefix = vlib.prng_bytes(R.seed, "c05/gp/%s/%d" % (cls, j), 16 * (j % 3))
            tail = vlib.prng_bytes(R.seed, "c05/gt/%s/%d" % (cls, j), 16 * (j % 2))
            blocks = polycraft.craft_generic(cls, key, prefix, tail, R.rng)
            if blocks is None:
                raise vlib.ToolError("no Poly1305 input of class %s could be crafted for a seeded key" % cls)
            msg = prefix + blocks + tail
            crafted.append((cls, key, msg))
            add("crafted:" + cls, key, msg, [], "crafted-generic")
            add("crafted:" + cls, key, msg, [len(prefix) + 9], "crafted-generic-split")
    R.rule = ("[new, input..., result|raw_result] per (key class, message, chunking): keys = seeded, all-ones, zero, r in 0..5, r max, clamped-bit patterns; messages = lengths "
              + ("0..80" if thorough else "boundary set up to 80") + ", saturating/wrap-around specials, seeded up to 4 KiB, inputs crafted for each branch class of the limb code (%d classes x %d);" % (len(polycraft.CLASSES), 40 if thorough else 2) + " chunkings = whole, byte-wise, TLC-generated splits at buffer size 16; "
              "distinct = (key class, message class/length, chunking); non-trivial = non-empty message")
    res = R.conform("TraceMac", hs, cost=mc.cost_mac, describe=mc.describe)
    # case analysis of the limb code on the inputs used: the donna transcription refines the RFC definition on each of them, and every branch
    # class it distinguishes is reached by at least one input (vacuity guard)
    pool = [{"id": R.next_id(), "ev": [{"op": "mac", "key": k, "data": m, "out": {"k": "v", "v": []}}]} for (_, k, m) in crafted]
    seen = set()
    for h in hs:
        msg = [b for e in h["ev"] if e["op"] == "input" for b in e["data"]]
        sig = (tuple(h["key"]), tuple(msg))
        if sig not in seen and len(msg) <= 64 and len(pool) < (1500 if thorough else 140):
            seen.add(sig)
            pool.append({"id": R.next_id(), "ev": [{"op": "mac", "key": h["key"], "data": msg, "out": {"k": "v", "v": []}}]})
    if not R.collect:
        extras = R.model_eval("Poly1305Donna", pool, "donna", cost=lambda r: 1 + len(r["ev"][0]["data"]) / 16.0)
        cov = {}
        for v in extras:
            if v[0] == "COV":
                for c in v[2]:
                    cov[c] = cov.get(c, 0) + 1
        need = ["blk_wrap", "blk_h0_carry", "blk_h1_unnormalised", "fin_c1", "fin_c2", "fin_c3", "fin_wrap", "fin_h0_carry", "fin_h0_carry_h1_odd", "sel_ge_p", "sel_lt_p", "pad_carry_into_saturated"]
        R.extra["donna_branch_classes"] = cov
        missing = [c for c in need if not cov.get(c)]
        if missing:
            raise vlib.ToolError("vacuous run: no input reaches the limb-code branches %s" % missing)
    for r in res["records"][:2] + res["records"][-3:]:
        R.sample({"key": vlib.hexs(r["key"]), "inputs": [len(e.get("data", [])) for e in r["ev"] if e["op"] == "input"], "tag": vlib.hexs(r["ev"][-1]["out"]["v"]),
                  "verdict": res["verdicts"][r["id"]][0]})
