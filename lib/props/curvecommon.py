"""Inputs for the curve properties (C12-C15, C17): boundary encodings, small-order points, and a search for inputs
that drive the scalar reduction into its rare branches (input selection only - no expected values are computed here)."""
import hashlib
import vlib

P = 2 ** 255 - 19
L = 2 ** 252 + 27742317777372353535851937790883648493
D = (-121665 * pow(121666, P - 2, P)) % P
SQRTM1 = pow(2, (P - 1) // 4, P)


def le32(n):
    return list((n % (1 << 256)).to_bytes(32, "little"))


def le64(n):
    return list((n % (1 << 512)).to_bytes(64, "little"))


# Montgomery u-coordinates of small order (RFC 7748 section 6.1 / https://cr.yp.to/ecdh.html#validate)
SMALL_U = [0, 1, 325606250916557431795983626356110631294008115727848805560023387167927233504,
           39382357235489614581723060781553021112529911719440698176882885853963445705823, P - 1, P, P + 1]
U_BOUNDARY = [0, 1, 2, 9, P - 2, P - 1, P, P + 1, P + 2, 2 ** 255 - 1, 2 ** 255, 2 ** 255 + 1, 2 ** 256 - 1, 2 ** 256 - 19, 2 ** 255 + 9]


def ed_recover_x(y, sign):
    u = (y * y - 1) % P
    v = (D * y * y + 1) % P
    x = pow(u * pow(v, P - 2, P) % P, (P + 3) // 8, P)
    if (v * x * x - u) % P != 0:
        x = x * SQRTM1 % P
    if (v * x * x - u) % P != 0:
        return None
    if x % 2 != sign:
        x = (P - x) % P
    return x


def _ext_add(p, q):
    (X1, Y1, Z1, T1), (X2, Y2, Z2, T2) = p, q
    A = (Y1 - X1) * (Y2 - X2) % P
    B = (Y1 + X1) * (Y2 + X2) % P
    C = 2 * D * T1 * T2 % P
    Dd = 2 * Z1 * Z2 % P
    E, F, G, H = B - A, Dd - C, Dd + C, B + A
    return (E * F % P, G * H % P, F * G % P, E * H % P)


def _ed_add(p1, p2):
    r = _ext_add((p1[0], p1[1], 1, p1[0] * p1[1] % P), (p2[0], p2[1], 1, p2[0] * p2[1] % P))
    zi = pow(r[2], P - 2, P)
    return (r[0] * zi % P, r[1] * zi % P)


def _ed_mul(k, pt):
    """k * pt in extended coordinates (one inversion at the end); pt and result affine"""
    q = (pt[0], pt[1], 1, pt[0] * pt[1] % P)
    r = (0, 1, 1, 0)
    while k:
        if k & 1:
            r = _ext_add(r, q)
        q = _ext_add(q, q)
        k >>= 1
    zi = pow(r[2], P - 2, P)
    return (r[0] * zi % P, r[1] * zi % P)


def ed_encode(pt):
    return le32(pt[1] | ((pt[0] & 1) << 255))


def small_order_points():
    """canonical encodings of the 8 points of order dividing 8 on edwards25519 (computed: L * random point, closed under addition)"""
    y = 3
    gen = None
    while gen is None:
        x = ed_recover_x(y, 0)
        if x is not None:
            t = _ed_mul(L, (x, y))
            if _ed_mul(4, t) != (0, 1):
                gen = t
        y += 1
    pts = []
    cur = (0, 1)
    for _ in range(8):
        pts.append(cur)
        cur = _ed_add(cur, gen)
    assert cur == (0, 1) and len(set(pts)) == 8
    return [ed_encode(q) for q in pts]


def noncanonical_variants(enc):
    """encodings that decode to the same point by the ref10 rule: y + p when it fits in 255 bits; sign bit set when x = 0"""
    n = int.from_bytes(bytes(enc), "little")
    y, s = n & ((1 << 255) - 1), n >> 255
    v = []
    if y + P < (1 << 255):
        v.append(le32((y + P) | (s << 255)))
    return v


MU = (1 << 512) // L


def barrett_class(x):
    """case analysis of the HAC 14.42 Barrett reduction used for 512-bit inputs (radix 2^8, k = 32):
    q3 = floor(floor(x / b^(k-1)) * mu / b^(k+1)); r = (x mod b^(k+1)) - (q3 * L mod b^(k+1)); wrap = r < 0;
    nsub = number of final subtractions of L"""
    q1 = x >> 248
    q3 = (q1 * MU) >> 264
    r1 = x & ((1 << 264) - 1)
    r2 = (q3 * L) & ((1 << 264) - 1)
    wrap = r1 < r2
    r = (r1 - r2) % (1 << 264)
    nsub = 0
    while r >= L:
        r -= L
        nsub += 1
    return (wrap, nsub)


def find_wide(R, want, tries=200000, tag="w"):
    """seeded 64-byte strings whose reduction falls into each wanted Barrett class"""
    found = {}
    i = 0
    while len(found) < len(want) and i < tries:
        b = hashlib.sha512(("%d/%s/%d" % (R.seed, tag, i)).encode()).digest()
        c = barrett_class(int.from_bytes(b, "little"))
        if c in want and c not in found:
            found[c] = list(b)
        i += 1
    return found


def scalar_carry_grid(rng, w, n):
    """n values r < L chosen limb by limb (limb width w) relative to the limbs M_i of L, so that the carries of r + L - equivalently the borrows of
    the conditional subtraction (r + L) - L that ends a reduction - take every pattern: per limb one of {0, all ones, 2^w - M_i - 1 (propagates an
    incoming carry only), 2^w - M_i (generates one), 2^w - M_i + 1, M_i - 1, M_i, random}.  Input selection only."""
    nl = (253 + w - 1) // w
    mask = (1 << w) - 1
    M = [(L >> (w * i)) & mask for i in range(nl)]
    out = []
    t = 0
    while len(out) < n and t < 50 * n:
        t += 1
        r = 0
        for i in range(nl):
            c = rng.randrange(8)
            v = [0, mask, (mask - M[i]) & mask, (mask + 1 - M[i]) & mask, (mask + 2 - M[i]) & mask, (M[i] - 1) & mask, M[i], rng.randrange(mask + 1)][c]
            if i == nl - 1:
                v = [0, (M[i] - 1) & mask, rng.randrange(max(1, M[i])), 0][c % 4]
            r |= v << (w * i)
        if r < L:
            out.append(r)
    return out


def wide_for_result(rng, r, want_nsub=None, tries=400):
    """a 512-bit x = r + k * L (k seeded) - optionally one whose Barrett estimate needs `want_nsub` final subtractions"""
    x = None
    for _ in range(tries):
        k = rng.randrange(1 << rng.choice((1, 8, 130, 250, 258)))
        x = r + k * L
        if x >= 1 << 512:
            continue
        if want_nsub is None or barrett_class(x)[1] == want_nsub:
            return x
    return x if x is not None and x < 1 << 512 else r


def signing_scalar_events(R, n):
    """the two scalar routines an Ed25519 signature is composed of (the wide reduction applied to both SHA-512 outputs, the multiply-add), on inputs
    directed at the rare borrow classes of their final subtraction - classes a signature reaches with probability 2^-40 and below, since its
    scalars are hash outputs: [(event, count key)]"""
    evs = []
    for r in scalar_carry_grid(R.rng, 56, n):
        for ns in (0, 1):
            evs.append(({"op": "scalar_reduce_wide", "bytes": le64(wide_for_result(R.rng, r, ns))}, ("component-wide", ns, r % 10 ** 9)))
    low = L % (1 << 168)
    for k in (1, 2, 255):
        for r in ((k << 168) - 1, (k << 168) + low - 1 - low):
            for ns in (0, 1):
                evs.append(({"op": "scalar_reduce_wide", "bytes": le64(wide_for_result(R.rng, r % L, ns))}, ("component-wide-limb3", ns, k, r % 1000)))
    for i, r in enumerate([L - 1, L - 2, 1 << 252, (1 << 252) + 1, (3 << 168) - 1, (1 << 224) - 1, 0, 1] + scalar_carry_grid(R.rng, 56, n // 2)):
        a = R.rng.randrange(L)
        b = ((1 << 254) | (R.rng.getrandbits(251) << 3)) % (1 << 255)
        evs.append(({"op": "scalar_muladd", "a": le32(a), "b": le32(b), "c": le32((r - a * b) % L)}, ("component-muladd", i, r.bit_length())))
    return evs


def clamp(h):
    h = bytearray(h)
    h[0] &= 248
    h[31] &= 63
    h[31] |= 64
    return bytes(h)


def extended_secret(seed):
    h = hashlib.sha512(bytes(seed)).digest()
    return list(clamp(h[:32]) + h[32:])


def find_sign_inputs(R, seed, want_wrap=True, tries=40000):
    """a message for which the nonce hash SHA-512(prefix || msg) lands in the wrap class of the reduction"""
    ext = extended_secret(seed)
    prefix = bytes(ext[32:])
    for i in range(tries):
        m = hashlib.sha256(("%d/signmsg/%d" % (R.seed, i)).encode()).digest()[: 1 + i % 31]
        x = int.from_bytes(hashlib.sha512(prefix + m).digest(), "little")
        if barrett_class(x)[0] == want_wrap:
            return list(m)
    return None


def cost_curve(rec):
    w = {"curve25519": 25, "x25519_dh": 25, "curve25519_base": 25, "x25519_base": 25, "ed_keypair": 12, "ed_extended_to_public": 12, "ed_signature": 30,
         "ed_signature_extended": 30, "ed_verify": 30, "ed_exchange": 40, "ge_scalarmult_base": 12, "ge_double_scalarmult": 28, "ge_decode": 6, "ge_ops": 30,
         "scalar_reduce_wide": 0.3, "scalar_canonical": 0.05, "scalar_roundtrip": 0.02, "invert": 3, "pow25523": 3}
    c = 1.0
    for e in rec["ev"]:
        c += w.get(e["op"], 0.02) + 0.01 * len(e.get("msg", []))
        if e["op"] == "square_repeatdly":
            c += 0.01 * e["n"]
    return c


# ---- input selection helpers for Ed25519 (a plain reference implementation used ONLY to choose inputs with a wanted
# ---- structure - e.g. a public key whose last byte is zero, a signature whose S has a given shape; verdicts come from TLC)
BASE = (ed_recover_x(4 * pow(5, P - 2, P) % P, 0), 4 * pow(5, P - 2, P) % P)


def ed_public(seed):
    ext = extended_secret(seed)
    a = int.from_bytes(bytes(ext[:32]), "little")
    return ed_encode(_ed_mul(a, BASE))


def ed_sign_parts(seed, msg):
    """(r_wide, hram_wide) as integers: the two 512-bit values that get reduced modulo L while signing"""
    ext = extended_secret(seed)
    a = int.from_bytes(bytes(ext[:32]), "little")
    A = bytes(ed_encode(_ed_mul(a, BASE)))
    rw = int.from_bytes(hashlib.sha512(bytes(ext[32:]) + bytes(msg)).digest(), "little")
    Rb = bytes(ed_encode(_ed_mul(rw % L, BASE)))
    hw = int.from_bytes(hashlib.sha512(Rb + A + bytes(msg)).digest(), "little")
    return rw, hw


def enc_mul_base(s):
    return ed_encode(_ed_mul(s, BASE))


# ---- result-directed input crafting (input selection only): operands chosen so that the *result* of a field operation, or of a whole
# ---- X25519 computation, is a boundary value of the representations (small, just below p, around 2^25k / 2^26k / 2^51k, low limb nearly full)
def result_targets(rng, per_band=2):
    t = set(range(0, 41)) | {P - k for k in range(1, 41)}
    for j in (25, 26, 51, 102, 128, 153, 204, 230, 252, 254):
        for d in range(-20, 21):
            t.add((2 ** j + d) % P)
    for w in (25, 26, 51, 102):
        for s in (1, 2, 14, 15, 18, 19, 20):
            for _ in range(per_band):
                t.add(((rng.getrandbits(255 - w) << w) | ((1 << w) - s)) % P)
    return sorted(t)


def fe_sqrt(t):
    """a square root of t modulo p, or None"""
    t %= P
    x = pow(t, (P + 3) // 8, P)
    if (x * x - t) % P:
        x = x * SQRTM1 % P
    return x if (x * x - t) % P == 0 else None


def fe_enc(v, rng, noncanonical=True):
    """an encoding of v: canonical, or v + p when that fits in 255 bits, with or without the ignored top bit"""
    v %= P
    if noncanonical and v + P < (1 << 255) and rng.random() < 0.5:
        v += P
    return le32(v | ((1 << 255) if rng.random() < 0.25 else 0))


def fe_operands_for(op, t, rng):
    """operand values (integers mod p) such that op(operands) = t, or None"""
    x = rng.randrange(2, P)
    inv = lambda a: pow(a, P - 2, P)
    if op == "mul":
        return [x, t * inv(x) % P]
    if op == "add":
        return [x, (t - x) % P]
    if op == "sub":
        return [x, (x - t) % P]
    if op == "neg":
        return [(-t) % P]
    if op == "square":
        r = fe_sqrt(t)
        return None if r is None else [r if rng.random() < 0.5 else P - r]
    if op == "square_and_double":
        r = fe_sqrt(t * inv(2) % P)
        return None if r is None else [r if rng.random() < 0.5 else P - r]
    if op == "invert":
        return None if t % P == 0 else [inv(t)]
    raise ValueError(op)


def mul_small_operands(rng):
    """(label, nine, encoding) - field elements given by their five 51-bit limbs (what from_bytes produces) for the small-constant multiplication
    of the ladders: limb 0 solved so that low51(f0 * S) sits just below 2^51 and the wrap-around 19 * carry pushes it over (the tail carry of the
    chain), or just does not; limb 4 full so that the top carry is as large as it gets.  Classes are confirmed by TLC (Fe64.tla)."""
    out = []
    M = (1 << 51) - 1
    mid = lambda: sum(rng.randrange(1 << 51) << (51 * k) for k in (1, 2, 3))
    for j in (1, 500, 10 ** 6, 1155000, 1300000, 5 * 10 ** 6):          # 19 * c is about 2.31e6 for S = 121666: 2j below / above that
        f0 = (-j * pow(60833, -1, 1 << 50)) % (1 << 50)
        for hi in (0, 1 << 50):
            out.append(("ms121666/j=%d/%d" % (j, hi >> 50), 0, f0 | hi | mid() | (M << 204)))
    for j in (1, 50, 150, 160, 400):                                      # 19 * c = 152 for S = 9
        f0 = ((1 << 51) - j) * pow(9, -1, 1 << 51) % (1 << 51)
        out.append(("ms9/j=%d" % j, 1, f0 | mid() | (M << 204)))
    for nine in (0, 1):
        out += [("ms/zero", nine, 0), ("ms/one", nine, 1), ("ms/p-1", nine, P - 1), ("ms/all-limbs-full", nine, (1 << 255) - 1), ("ms/limb0-full", nine, M), ("ms/limb4-full", nine, M << 204),
                ("ms/seeded", nine, rng.randrange(P))]
    return [(l, n, le32(v)) for l, n, v in out]


A_MONT = 486662


def x25519_preimage(v, kbytes):
    """u such that X25519(k, u) = v, for v the u-coordinate of a point of prime order on curve25519 (None if v is not one):
    Q = the point with u(Q) = v, u = u([k^-1 mod L] Q) with k the clamped scalar"""
    v %= P
    if v in (0, 1, P - 1) or fe_sqrt((v * v * v + A_MONT * v * v + v) % P) is None:
        return None
    y = (v - 1) * pow(v + 1, P - 2, P) % P                  # birational map to edwards25519
    x = ed_recover_x(y, 0)
    if x is None:
        return None
    q = (x, y)
    if _ed_mul(L, q) != (0, 1):
        return None
    k = int.from_bytes(clamp(bytes(kbytes)), "little")
    q2 = _ed_mul(pow(k, -1, L), q)
    if q2[1] == 1:
        return None
    return (1 + q2[1]) * pow(1 - q2[1], P - 2, P) % P


def x25519_result_targets(rng):
    """families of target values for the result of X25519 (candidates in order; the caller takes the first few of each family that are
    u-coordinates of prime-order points): small integers >= 19 (the canonical encoding's +19 trick), just below p, the low 51 / 26 / 25 bits nearly
    full with random upper bits (a borrow out of the lowest limb of either back-end), around 2^51k"""
    fams = [("small", list(range(19, 120))), ("below-p", [P - k for k in range(1, 120)])]
    for w in (51, 26, 25):
        fams.append(("low%d" % w, [((rng.getrandbits(255 - w) << w) | ((1 << w) - s)) % P for s in (1, 2, 14, 15, 18, 19, 3, 17, 16, 10) for _ in range(6)]))
    fams.append(("pow", [(2 ** w + d) % P for w in (51, 102, 153, 204) for d in (-1, 0, 1, -19, 19, -2, 2, -18, 18)]))
    return fams
