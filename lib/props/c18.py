"""C18 - constant-time predicates and selectors return the ordinary answer.

MC:  CT.tla - the branch-free formulas of constant_time.rs transcribed at word width 8 against their plain meanings:
     all 65 536 operand pairs for zero / non-zero / == / != / < / > and the derived <= / >=; the byte-array borrow
     chain on all pairs of 2-byte arrays over a boundary alphabet; masked swap / assign for both choices; the choice
     algebra.  (With the derived operations defined by swapping arguments, as on the pinned tree, TLC reports
     a = b = 0: see ./check selftest and known_findings.json.)
TV:  the real helpers are evaluated on: all 65 536 byte pairs (256 rows of 256 result bits per operation); the 64-bit
     boundary set squared + seeded and single-bit-apart pairs; byte arrays and slices of length 0..40, equal and
     differing in exactly one position (every position, three kinds of difference); u64 arrays / slices of 0..8
     limbs; the Choice truth tables; CtOption; masked swap / set of 5 x u64 and 10 x i32 limb arrays for both choices;
     MacResult == for equal / one-byte-different / different-length operands; Tag == for every mismatch position.
     TLC checks every result against the plain meaning (TraceCT)."""
import vlib

B64 = sorted({0, 1, 2, (1 << 31) - 1, 1 << 31, (1 << 31) + 1, (1 << 32) - 1, 1 << 32, (1 << 32) + 1, (1 << 63) - 2, (1 << 63) - 1, 1 << 63, (1 << 63) + 1,
              (1 << 64) - 3, (1 << 64) - 2, (1 << 64) - 1, 0x00ff00ff00ff00ff, 0xff00ff00ff00ff00, 255, 256})


def le8(n):
    return list(n.to_bytes(8, "little"))


def describe(r, v):
    e = r["ev"][v[1] - 1] if 0 < v[1] <= len(r["ev"]) else {}
    d = {"cls": "ct", "fn": e.get("fn"), "f": e.get("f")}
    if e.get("fn") in ("u64", "arr8", "sl8", "arr64", "sl64", "mac", "tag") and "b" in e:
        d["operands_equal"] = e.get("a") == e.get("b")
    return d


def run(R):
    thorough = R.tier == "thorough"
    R.model_check("CT", "MC_CT.cfg", workers=4)
    R.model_check("CT", "MC_CT_arr.cfg", workers=4)
    groups = {}

    def add(key, e, trivial=False):
        groups.setdefault(key, []).append(e)
        R.count((key, len(groups[key])), trivial=trivial)

    # ---- bytes: exhaustive
    for f in ("ct_zero", "ct_nonzero"):
        add(("u8", f), {"fn": "u8all", "f": f})
    for f in ("ct_eq", "ct_ne"):
        for a in range(256):
            add(("u8", f), {"fn": "u8row", "f": f, "a": a})
    # ---- u64
    pairs = [(a, b) for a in B64 for b in B64]
    nrand = 60000 if thorough else 300
    for i in range(nrand):
        a = R.rng.getrandbits(64)
        k = i % 4
        if k == 0:
            b = R.rng.getrandbits(64)
        elif k == 1:
            b = a ^ (1 << R.rng.randrange(64))           # one bit apart
        elif k == 2:
            b = a                                        # equal
        else:
            b = (a + R.rng.choice([1, -1, 1 << 32, -(1 << 32)])) % (1 << 64)
        pairs.append((a, b))
    for f in ("ct_zero", "ct_nonzero"):
        for a in B64 + [1 << i for i in range(64)]:
            add(("u64", f), {"fn": "u64", "f": f, "a": le8(a)}, trivial=(a == 0))
    for f in ("ct_eq", "ct_ne", "ct_lt", "ct_gt", "ct_le", "ct_ge"):
        for (a, b) in pairs:
            add(("u64", f, a == b), {"fn": "u64", "f": f, "a": le8(a), "b": le8(b)})
    # ---- byte arrays / slices of length 0..40: equal, or differing in exactly one position
    for n in range(0, 41):
        base = vlib.prng_bytes(R.seed, "c18/arr/%d" % n, n)
        variants = [(base, list(base), True)]
        for pos in range(n):
            for kind in range(3):
                o = list(base)
                o[pos] = [(o[pos] + 1) % 256, o[pos] ^ 0x80, (o[pos] - 1) % 256][kind]
                variants.append((base, o, False))
        if n:
            variants.append(([0] * n, [0] * n, True))
            variants.append(([255] * n, [255] * n, True))
            variants.append(([0] * (n - 1) + [1], [1] + [0] * (n - 1), False))     # order decided by the leading byte
        for (a, b, same) in variants:
            for f in ("ct_eq", "ct_ne", "ct_lt", "ct_ge"):
                add(("arr8", f, same), {"fn": "arr8", "f": f, "a": a, "b": b}, trivial=(n == 0))
                add(("arr8", f, same), {"fn": "arr8", "f": f, "a": b, "b": a}, trivial=(n == 0))
            for f in ("ct_eq", "ct_ne"):
                add(("sl8", f, same), {"fn": "sl8", "f": f, "a": a, "b": b}, trivial=(n == 0))
            for f in ("eq", "ne"):
                add(("mac", f, same), {"fn": "mac", "f": f, "a": a, "b": b}, trivial=(n == 0))
        # zero tests: all-zero and a single non-zero byte at every position
        for f in ("ct_zero", "ct_nonzero"):
            add(("arr8", f), {"fn": "arr8", "f": f, "a": [0] * n}, trivial=(n == 0))
            for pos in range(n):
                z = [0] * n
                z[pos] = 1 if (pos + n) % 2 else 0x80
                add(("arr8", f), {"fn": "arr8", "f": f, "a": z})
        # MacResult: different lengths never compare equal (prefix, extension, empty)
        for m in {0, n - 1, n + 1, 2 * n} - {n, -1}:
            other = (base + vlib.prng_bytes(R.seed, "c18/ext/%d" % n, max(0, m - n)))[:m]
            for f in ("eq", "ne"):
                add(("mac", f, "len"), {"fn": "mac", "f": f, "a": base, "b": other})
                add(("mac", f, "len"), {"fn": "mac", "f": f, "a": other, "b": base})
    # differences repeated in every word (a comparison folding word differences with xor / add would cancel them): lengths 16, 32, 64
    for n in (16, 32, 64):
        base = vlib.prng_bytes(R.seed, "c18/rep/%d" % n, n)
        for w in (8, 4, 2, 1):
            for k in range(2):
                delta = [R.rng.randrange(1, 256) for _ in range(w)] if k else [0] * (w - 1) + [0x80]
                o = [base[q] ^ delta[q % w] for q in range(n)]
                for fn, fs in (("arr8", ("ct_eq", "ct_ne")), ("sl8", ("ct_eq", "ct_ne")), ("mac", ("eq", "ne"))) + ((("tag", ("eq", "ne", "ct_eq", "ct_ne")),) if n == 16 else ()):
                    for f in fs:
                        add((fn, f, "rep"), {"fn": fn, "f": f, "a": base, "b": o})
        half = n // 2
        o = base[half:] + base[:half]
        for f in ("eq", "ne"):
            add(("mac", f, "rep"), {"fn": "mac", "f": f, "a": base, "b": o})
    # differences at two or three positions that cancel under xor (an accumulator combined with ^ instead of | would miss them), bytes and words
    for n in (2, 3, 5, 8, 16, 33):
        base = vlib.prng_bytes(R.seed, "c18/cancel/%d" % n, n)
        outs = []
        for _ in range(3):
            i, j = R.rng.sample(range(n), 2)
            d = R.rng.randrange(1, 256)
            o = list(base); o[i] ^= d; o[j] ^= d
            outs.append(o)
            if n >= 3:
                i, j, k = R.rng.sample(range(n), 3)
                d1, d2 = R.rng.randrange(1, 256), R.rng.randrange(1, 256)
                o = list(base); o[i] ^= d1; o[j] ^= d2; o[k] ^= d1 ^ d2
                if o != base:
                    outs.append(o)
        sw = list(base); sw[0], sw[-1] = sw[-1], sw[0]
        if sw != base:
            outs.append(sw)
        for o in outs:
            for fn, fs in (("arr8", ("ct_eq", "ct_ne")), ("sl8", ("ct_eq", "ct_ne")), ("mac", ("eq", "ne"))) + ((("tag", ("eq", "ct_eq")),) if n == 16 else ()):
                for f in fs:
                    add((fn, f, "cancel"), {"fn": fn, "f": f, "a": base, "b": o})
    # operands at every pair of addresses modulo 8 (a word-at-a-time comparison that splits each operand by its own alignment), equal and
    # differing in one byte; and at a few offsets modulo 64
    for n in ((8, 9, 15, 16, 17, 24, 31, 32, 33, 40, 64) if thorough else (9, 16, 33, 40)):
        base = vlib.prng_bytes(R.seed, "c18/place/%d" % n, n)
        for oa in range(8):
            for ob in range(8):
                pos = (oa * 8 + ob) % n
                o = list(base); o[pos] ^= 1 << (ob % 8)
                o2 = list(base); o2[n - 1 - pos] ^= 0x80
                for b_, same in ((list(base), True), (o, False), (o2, False)):
                    for fn, fs in (("sl8", ("ct_eq", "ct_ne")), ("arr8", ("ct_eq", "ct_lt", "ct_ge"))):
                        for f in fs:
                            add((fn, f, "placed", same), {"fn": fn, "f": f, "a": base, "b": b_, "oa": oa, "ob": ob})
        for oa, ob in ((0, 63), (60, 4), (17, 34), (1, 33)):
            o = list(base); o[n // 2] ^= 4
            for b_, same in ((list(base), True), (o, False)):
                add(("sl8", "ct_eq", "placed", same), {"fn": "sl8", "f": "ct_eq", "a": base, "b": b_, "oa": oa, "ob": ob})
    # order and equality by word classes: every word (of 1, 4, 8, 16 bytes) of the operand pair is drawn from a class (equal random / equal
    # all-ones / equal zero / less / greater / zero vs all-ones / all-ones vs other / adjacent values / differing in the lowest or highest byte),
    # all class combinations for two words and sampled ones for three to five: a borrow chain over words must handle a borrow
    # arriving at a saturated or an equal word
    def word_pair(w, cls):
        top = (1 << (8 * w)) - 1
        x = R.rng.randrange(1, top)
        y = R.rng.randrange(1, top)
        lo, hi = min(x, y), max(x, y)
        if lo == hi:
            hi = lo + 1
        return {"eq": (x, x), "eq1": (top, top), "eq0": (0, 0), "lt": (lo, hi), "gt": (hi, lo), "0/1": (0, top), "1/0": (top, 0), "x/1": (x, top), "1/x": (top, x),
                "x/0": (x, 0), "0/x": (0, x), "pred": (x - 1, x), "succ": (x, x - 1), "lowbyte": (x, x ^ 1), "highbyte": (x, x ^ (0x80 << (8 * (w - 1))))}[cls]
    classes = ["eq", "eq1", "eq0", "lt", "gt", "0/1", "1/0", "x/1", "1/x", "x/0", "0/x", "pred", "succ", "lowbyte", "highbyte"]
    import itertools
    nwc = 0
    for w in (8, 4, 1, 16):
        for nw in (2, 3, 4, 5):
            n = w * nw
            if n > 40 and n not in (48, 64):
                continue
            combos = list(itertools.product(classes, repeat=nw))
            if nw > 2:
                combos = R.rng.sample(combos, 600 if thorough else 120)
            for combo in combos:
                a, b = [], []
                for cls in combo:                          # most significant word first (the arrays are big-endian numbers)
                    x, y = word_pair(w, cls)
                    a += list(x.to_bytes(w, "big")); b += list(y.to_bytes(w, "big"))
                for tail in ((), (7,)) if (n + 1 <= 40 and w == 8 and nw == 2) else ((),):         # a partial word after the full ones
                    aa, bb = a + list(tail), b + list(tail)
                    for f in ("ct_lt", "ct_ge", "ct_eq"):
                        add(("arr8", f, "wordclass", w), {"fn": "arr8", "f": f, "a": aa, "b": bb})
                        nwc += 1
                    add(("sl8", "ct_eq", "wordclass", w), {"fn": "sl8", "f": "ct_eq", "a": aa, "b": bb})
    R.extra["word_class_comparisons"] = nwc
    for n in (2, 3, 5, 8):
        words = [R.rng.getrandbits(64) for _ in range(n)]
        enc = lambda ws: [b for w in ws for b in le8(w)]
        cases = [[1, 0] + words[2:], None]
        a0 = [0, 1] + words[2:]
        for _ in range(3):
            i, j = R.rng.sample(range(n), 2)
            d = R.rng.getrandbits(64) | 1
            o = list(words); o[i] ^= d; o[j] ^= d
            for fn in ("arr64", "sl64"):
                for f in ("ct_eq", "ct_ne"):
                    add((fn, f, "cancel"), {"fn": fn, "f": f, "a": enc(words), "b": enc(o)})
        for fn in ("arr64", "sl64"):
            for f in ("ct_eq", "ct_ne"):
                add((fn, f, "cancel"), {"fn": fn, "f": f, "a": enc([1, 0] + words[2:]), "b": enc(a0)})
        if n >= 3:
            i, j, k = R.rng.sample(range(n), 3)
            d1, d2 = R.rng.getrandbits(64) | 2, R.rng.getrandbits(64) | 4
            o = list(words); o[i] ^= d1; o[j] ^= d2; o[k] ^= d1 ^ d2
            for fn in ("arr64", "sl64"):
                add((fn, "ct_eq", "cancel"), {"fn": fn, "f": "ct_eq", "a": enc(words), "b": enc(o)})
    # MacResult: lengths that agree modulo 256 (or modulo 2^16) with the shorter code a prefix of the longer one
    for (n1, n2) in ((0, 256), (32, 288), (1, 257), (16, 16 + 512), (20, 20 + 65536), (64, 64 + 256)):
        longer = vlib.prng_bytes(R.seed, "c18/maclen/%d" % n2, n2)
        for f in ("eq", "ne"):
            add(("mac", f, "len256"), {"fn": "mac", "f": f, "a": longer[:n1], "b": longer})
            add(("mac", f, "len256"), {"fn": "mac", "f": f, "a": longer, "b": longer[:n1]})
    # ---- u64 arrays / slices
    for n in range(0, 9):
        base = vlib.prng_bytes(R.seed, "c18/a64/%d" % n, 8 * n)
        variants = [(base, list(base))]
        for pos in range(8 * n):
            o = list(base)
            o[pos] ^= 1 << (pos % 8)
            variants.append((base, o))
        for (a, b) in variants:
            for f in ("ct_eq", "ct_ne"):
                add(("arr64", f), {"fn": "arr64", "f": f, "a": a, "b": b}, trivial=(n == 0))
                add(("sl64", f), {"fn": "sl64", "f": f, "a": a, "b": b}, trivial=(n == 0))
        for f in ("ct_zero", "ct_nonzero"):
            for fn in ("arr64", "sl64"):
                add((fn, f), {"fn": fn, "f": f, "a": [0] * (8 * n)}, trivial=(n == 0))
                for pos in range(8 * n):
                    z = [0] * (8 * n)
                    z[pos] = 0x80 if pos % 8 == 7 else 1
                    add((fn, f), {"fn": fn, "f": f, "a": z})
    # zero tests on limb vectors whose limbs cancel under xor / sum to zero modulo 2^64 (an accumulator combined with ^ or + instead of |)
    le8v = lambda ws: [b for w in ws for b in w.to_bytes(8, "little")]
    x, y = R.rng.getrandbits(64) | 1, R.rng.getrandbits(64) | 2
    for ws in ([x, x], [x, 0, x], [x, y, x ^ y], [1, (1 << 64) - 1], [x, (-x) % (1 << 64)], [0, x, x, 0, 0], [x, y, x, y]):
        for f in ("ct_zero", "ct_nonzero"):
            for fn in ("arr64", "sl64"):
                add((fn, f, "cancel"), {"fn": fn, "f": f, "a": le8v(ws)})
    # codes longer than any MAC of the crate (MacResult accepts caller-supplied codes): a difference beyond byte 64, and a proper prefix
    for n in (65, 100, 200):
        base = vlib.prng_bytes(R.seed, "c18/longmac/%d" % n, n)
        for pos in (64, n - 1):
            o = list(base); o[pos] ^= 1
            for f in ("eq", "ne"):
                add(("mac", f, "long"), {"fn": "mac", "f": f, "a": base, "b": o})
        for f in ("eq", "ne"):
            add(("mac", f, "long"), {"fn": "mac", "f": f, "a": base, "b": list(base)})
            add(("mac", f, "long"), {"fn": "mac", "f": f, "a": base, "b": base[:64]})
    # ---- Choice algebra, CtOption
    for a in (0, 1):
        for f in ("negate", "is_true", "is_false", "into_bool"):
            add(("choice", f), {"fn": "choice", "f": f, "a": a})
        for b in (0, 1):
            for f in ("and", "or", "xor"):
                add(("choice", f), {"fn": "choice", "f": f, "a": a, "b": b})
        for n in (0, 1, 32):
            add(("opt",), {"fn": "opt", "a": vlib.prng_bytes(R.seed, "c18/opt", n), "c": a})
    # ---- masked swap / set: every (choice, array) combination over a pool of arrays
    pool64 = [[0] * 40, [255] * 40, vlib.prng_bytes(R.seed, "c18/p64a", 40), vlib.prng_bytes(R.seed, "c18/p64b", 40), le8(1) * 5, le8(1 << 63) * 5]
    pool32 = [[0] * 40, [255] * 40, vlib.prng_bytes(R.seed, "c18/p32a", 40), vlib.prng_bytes(R.seed, "c18/p32b", 40), [0, 0, 0, 0x80] * 10, [255, 255, 255, 0x7f] * 10]
    for c in (0, 1):
        for fn, pool in (("swap64", pool64), ("set64", pool64), ("swap32", pool32), ("set32", pool32)):
            for a in pool:
                for b in pool:
                    add((fn,), {"fn": fn, "a": a, "b": b, "c": c})
    # ---- Tag: every first-mismatch position, last byte, equal
    t = vlib.prng_bytes(R.seed, "c18/tag", 16)
    tv = [(t, list(t))]
    for pos in range(16):
        o = list(t)
        o[pos] ^= 1 << (pos % 8)
        tv.append((t, o))
        o2 = list(t)
        for q in range(pos, 16):
            o2[q] ^= 0xff
        tv.append((t, o2))
    for (a, b) in tv:
        for f in ("eq", "ne", "ct_eq", "ct_ne"):
            add(("tag", f), {"fn": "tag", "f": f, "a": a, "b": b})
    hs = []
    for key, evs in groups.items():
        step = 64
        for i in range(0, len(evs), step):
            hs.append({"id": R.next_id(), "cls": "ct", "group": "/".join(str(k) for k in key), "ev": evs[i:i + step]})
    R.rule = ("one event per (helper, operand tuple): u8 exhaustive (2^16 pairs as 256-bit rows); u64 boundary set %d^2 + %d seeded/one-bit-apart/equal/adjacent pairs x 6 "
              "predicates; byte arrays, slices and MacResult for every length 0..40 x (equal | one position differs, every position x 3 kinds | extremes), both operand orders; "
              "u64 arrays/slices 0..8 limbs x every byte position; Choice truth tables; CtOption; swap/set 6x6 operand pool x 2 choices x 4 selectors; Tag x every "
              "mismatch position; trivial = zero-length operands" % (len(B64), nrand))
    res = R.conform("TraceCT", hs, describe=describe, cost=lambda r: 1 + len(r["ev"]) * 0.2)
    for r in res["records"][:2] + res["records"][len(res["records"]) // 2:len(res["records"]) // 2 + 2] + res["records"][-2:]:
        e = r["ev"][-1]
        R.sample({"group": r["group"], "events": len(r["ev"]), "last_event": {k: (vlib.hexs(v) if isinstance(v, list) else v) for k, v in e.items() if k != "out"},
                  "last_out": e["out"]["v"][:8], "verdict": res["verdicts"][r["id"]][0]})
    R.assumptions += ["64-bit operands are the boundary set squared plus seeded pairs (the formulas are checked exhaustively at width 8 in CT.tla)",
                      "slices of unequal length are outside this property (CtEqual for slices asserts equal lengths: C20)"]
