"""C09 - MAC and digest objects: reset rekeys, results never silently change.

MC:  MacObj explored exhaustively for the four kinds (hmac, poly, b2mac, digest) over all histories of
     {input(len), result, raw_result, reset, clone} to depth 6: every result is the MAC of (construction key,
     bytes since reset); a repeated result is the same value or a panic; input after a result panics.
     (The pinned behaviours - Poly1305 setting `finalized` only with a pending partial block, the BLAKE2
     wrappers' Mac::reset dropping the key - are configurations of the same module that TLC rejects; ./check selftest.)
GEN: the machine at the real buffer sizes prints every behaviour of a shallower tree; replayed on Hmac over four
     digests, Poly1305, keyed BLAKE2b/BLAKE2s (empty and non-empty key) and every legacy Digest object.
TV:  TraceMac encodes the contract with the functional MAC / digest of (key, fed) as the only admissible value."""
import vlib
from props import hashcommon as hc
from props import maccommon as mc


def gen(R, kind, b, depth, lens, nctx):
    cfg = hc.write_cfg(R, "GEN_MacObj_%s_%d" % (kind, b), {"Kind": '"%s"' % kind, "B": b, "MaxOps": depth, "NCtx": nctx, "Lens": hc.tla_set(lens), "PolyFinish": '"always"',
                                                         "ResetKeeps": '"keep"', "Gen": "TRUE"}, ["InvResult", "InvInput", "Emit"])
    return R.generate("MacObj", cfg)


def gen_reuse(R, kind, b, lens):
    """the reuse matrix: input{0,2} result? reset input{0,2} result (MacObj.ReuseShape)"""
    cfg = hc.write_cfg(R, "GENR_MacObj_%s_%d" % (kind, b), {"Kind": '"%s"' % kind, "B": b, "MaxOps": 7, "NCtx": 1, "Lens": hc.tla_set(lens), "PolyFinish": '"always"',
                                                          "ResetKeeps": '"keep"', "Gen": "TRUE"}, ["InvResult", "InvInput", "EmitReuse"], constraints=["ReuseShape"])
    return R.generate("MacObj", cfg)


def run(R):
    thorough = R.tier == "thorough"
    for k in ("hmac", "poly", "b2mac", "digest"):
        R.model_check("MacObj", "MC_MacObj_%s.cfg" % k, need_actions=["Input", "Result", "Reset"] + ([] if k == "hmac" else ["Clone"]), workers=8)
    depth = 5 if thorough else 4
    per = 300 if thorough else 24
    hs = []
    sigs = 0

    def use(behs, bases, n, label):
        nonlocal sigs
        for base in bases:
            chosen, nu = hc.select(R, behs, n)
            sigs += nu
            for b in chosen:
                hs.append(mc.concretise(R, b, base, label))
                R.count((label, base.get("mac"), base.get("alg"), base.get("outlen"), len(base.get("key", [])), hc.signature(b)))

    key = lambda t, n: vlib.prng_bytes(R.seed, "c09key/" + t, n)
    # Hmac (not Clone): one context slot
    for alg, b in (("sha256", 64), ("sha512", 128), ("sha3_256", 136), ("blake2s", 64), ("blake2b", 128), ("sha512_256", 128), ("sha1", 64), ("ripemd160", 64)):
        if not thorough and alg in ("sha1", "ripemd160"):
            continue
        behs = gen(R, "hmac", b, depth, [0, 1, b - 1, b, b + 1], 1)
        base = {"cls": "mac", "mac": "hmac", "alg": alg, "key": key("hmac" + alg, 20)}
        if alg == "blake2s":
            base["outlen"] = 32
        if alg == "blake2b":
            base["outlen"] = 64
        use(behs, [base], per, "hmac")
        use(behs, [dict(base, key=key("hmacB" + alg, b))], max(2, per // 3), "hmac-blockkey")     # a key of exactly one block (used as is, not hashed)
    behs = gen(R, "poly", 16, depth, [0, 1, 15, 16, 17, 32, 33], 2)
    use(behs, [{"cls": "mac", "mac": "poly1305", "key": key("poly", 32)}, {"cls": "mac", "mac": "poly1305", "key": [255] * 32}], per * 2, "poly1305")
    for alg, (b, mo, mk) in hc.BLAKE.items():
        behs = gen(R, "b2mac", b, depth, [0, 1, b - 1, b, b + 1, 2 * b], 2)
        use(behs, [{"cls": "mac", "mac": alg, "outlen": mo, "key": key(alg, mk)}, {"cls": "mac", "mac": alg, "outlen": 16, "key": key(alg, 1)},
                   {"cls": "mac", "mac": alg, "outlen": 20, "key": []}], per, "blake2mac")
        # the same objects through the Digest trait (keyed and unkeyed)
        use(behs, [{"cls": "digest", "alg": alg, "outlen": mo, "key": key(alg, 7)}, {"cls": "digest", "alg": alg, "outlen": 32, "key": []}], per // 2, "blake2digest")
    # ---- reuse matrix: what the object held when it was reset x what it is fed afterwards (all of it for the cheap objects, a seeded
    # part for the others in the quick tier)
    nre = 0

    def use_all(behs, base, label, frac):
        nonlocal nre
        for i, b in enumerate(behs):
            if frac < 1 and R.rng.random() >= frac:
                continue
            hs.append(mc.concretise(R, b, base, label))
            nre += 1
            R.count((label, base.get("mac"), base.get("alg"), hc.signature(b)))
    use_all(gen_reuse(R, "poly", 16, [0, 1, 15, 16, 17, 33]), {"cls": "mac", "mac": "poly1305", "key": key("polyre", 32)}, "reuse-poly", 1)
    # re-keying of the legacy BLAKE2 objects: (key the object was built with) x (key it is re-keyed with, incl. the empty one) x (result read before or not);
    # the plain reset that follows must restore the NEW key
    for alg, (b, mo, mk) in hc.BLAKE.items():
        for k0 in (0, 1, mk):
            for k1 in (0, 3, mk):
                for mid in (False, True):
                    d = vlib.prng_bytes(R.seed, "c09/rekey/%s/%d/%d" % (alg, k0, k1), 3 * b)
                    ev = [{"op": "new"}, {"op": "input", "x": 1, "data": d[:b + 5]}] + ([{"op": "result", "x": 1}] if mid else []) + \
                         [{"op": "reset_with_key", "x": 1, "key": key("rk1" + alg, k1)}, {"op": "input", "x": 1, "data": d[:7]}, {"op": "result", "x": 1},
                          {"op": "reset", "x": 1}, {"op": "input", "x": 1, "data": d[7:b + 20]}, {"op": "raw_result", "x": 1}]
                    hs.append({"id": R.next_id(), "cls": "mac", "mac": alg, "outlen": mo if (k0 + k1) % 2 == 0 else 20, "key": key("rk0" + alg, k0), "ev": ev})
                    R.count(("rekey", alg, k0, k1, mid))
    # a reused Poly1305 object fed a message crafted for each rare carry / select class of the limb code (polycraft; classes of Poly1305Donna.tla):
    # after abandoned input and reset, in two pieces, result read twice, then once more after another reset
    from props import polycraft
    for cls in list(polycraft.CLASSES) + list(polycraft.GENERIC_CLASSES):
        for j in range(6 if thorough else 1):
            if cls in polycraft.GENERIC_CLASSES:
                k = key("polycraft/%s/%d" % (cls, j), 32)
                blocks = polycraft.craft_generic(cls, k, [], [], R.rng)
                r = (k, blocks) if blocks else None
            else:
                r = polycraft.craft(cls, R.rng)
            if r is None:
                continue
            k, m = r
            cut = 9 if len(m) > 9 else len(m) // 2
            hs.append({"id": R.next_id(), "cls": "mac", "mac": "poly1305", "key": k,
                       "ev": [{"op": "new"}, {"op": "input", "x": 1, "data": vlib.prng_bytes(R.seed, "c09/junk/" + cls, 7)}, {"op": "reset", "x": 1},
                              {"op": "input", "x": 1, "data": m[:cut]}, {"op": "input", "x": 1, "data": m[cut:]}, {"op": "result", "x": 1}, {"op": "raw_result", "x": 1},
                              {"op": "reset", "x": 1}, {"op": "input", "x": 1, "data": m}, {"op": "raw_result", "x": 1}]})
            R.count(("poly-crafted-reuse", cls, j))
    for alg, (b, mo, mk) in hc.BLAKE.items():
        behs = gen_reuse(R, "b2mac", b, [0, 1, b - 1, b, b + 1])
        use_all(behs, {"cls": "mac", "mac": alg, "outlen": mo, "key": key(alg + "re", mk)}, "reuse-b2mac", 1 if thorough else 0.35)
        use_all(behs, {"cls": "mac", "mac": alg, "outlen": 24, "key": key(alg + "re1", 3)}, "reuse-b2mac", 1 if thorough else 0.1)
        use_all(behs, {"cls": "digest", "alg": alg, "outlen": mo, "key": key(alg + "re2", 9)}, "reuse-b2digest", 0.5 if thorough else 0.08)
    for alg, b in (("sha256", 64), ("sha512", 128), ("sha3_256", 136)):
        behs = gen_reuse(R, "hmac", b, [0, 1, b - 1, b, b + 1])
        use_all(behs, {"cls": "mac", "mac": "hmac", "alg": alg, "key": key("hmacre" + alg, 20)}, "reuse-hmac", 0.5 if thorough else 0.05)
    # the legacy digest objects of every fixed hash: the same matrix (lengths around the block / rate, incl. an exact multiple abandoned by reset)
    dcache = {}
    for alg in hc.FIXED:
        b = hc.block_of(alg)
        if b not in dcache:
            dcache[b] = gen_reuse(R, "digest", b, [0, 1, b - 1, b, b + 1])
        use_all(dcache[b], {"cls": "digest", "alg": alg}, "reuse-digest", (1 if alg in hc.MD else 0.25) if thorough else (0.06 if alg in hc.MD else 0.03))
    R.extra["reuse_matrix_histories"] = nre
    cache = {}
    for alg in hc.FIXED:
        b = hc.block_of(alg)
        lb = hc.MD[alg][1] if alg in hc.MD else 1
        if (b, lb) not in cache:
            cache[(b, lb)] = gen(R, "digest", b, depth, [0, 1, b - lb - 1, b - lb, b, b + 1], 2)
        use(cache[(b, lb)], [{"cls": "digest", "alg": alg}], per // 2 if not thorough else per, "digest")
    # convenience methods of the Digest trait
    for alg in (hc.FIXED if thorough else ["sha256", "sha3_512", "ripemd160"]):
        hs.append({"id": R.next_id(), "cls": "digest", "alg": alg, "ev": [{"op": "new"}, {"op": "output_bits"}, {"op": "output_bytes"}, {"op": "block_size"},
                                                                        {"op": "input_str", "data": list(b"The quick brown fox")}, {"op": "result_str"}]})
        R.count(("digest-aux", alg))
    R.extra["distinct_branch_signatures_generated"] = sigs
    R.rule = ("behaviours printed by TLC from MacObj at the real buffer sizes (depth %d; ops input/result/raw_result/reset/clone): per object one behaviour per new (op,branch)/(branch,next) pair "
              "+ seeded sample up to %d; objects = Hmac over 4-6 digests, Poly1305 (2 keys), BLAKE2b/s Mac (max/1-byte/empty key), BLAKE2 via Digest, all 16 fixed legacy digests; "
              "distinct = (object, parameters, branch signature)" % (depth, per))
    res = R.conform("TraceMac", hs, cost=mc.cost_mac, describe=mc.describe, timeout=3000 if thorough else 900)
    n = len(res["records"])
    for r in res["records"][:2] + res["records"][n // 2:n // 2 + 2] + res["records"][-2:]:
        R.sample({"obj": r.get("mac") or r.get("alg"), "cls": r["cls"], "keylen": len(r.get("key", [])),
                  "history": [(e["op"], e.get("x"), len(e["data"]) if "data" in e else e.get("y"), e["out"]["k"]) for e in r["ev"]], "verdict": res["verdicts"][r["id"]][0]})
