"""C20 - valid inputs never panic or vary with build profile; misuse fails loudly.

MC:  ApiDomain.tla - the argument-shape domain of every entry point whose arguments are not fixed by types; TLC
     enumerates every shape one below / one above each legal value, zero and large (1 709 shapes) together with
     the outcome class the documentation requires.  Counters.tla - the crate's multi-word counter steps (BLAKE2
     byte counter, 64-bit and 32-bit cipher block counters) in a checked and an unchecked profile, exhaustively at
     word width 3: inside the counter's range no step panics and the value is old + inc; the same rules at the real
     widths (2^32, 2^64) over arbitrary counter values are discharged symbolically by Apalache (spec/apalache/CountersA.tla).
TV:  three build profiles (dev; release with overflow checks and debug assertions; plain release):
       S. every shape printed by TLC is turned into a call sequence and executed in all three profiles; TraceApi
          (which extends ApiDomain) checks the outcome class of every probe; the functional trace specifications
          validate the values of the legal calls; TraceEquiv validates the three profiles in lock-step;
       K. counters preset next to their word boundaries through the hooks (BLAKE2b/BLAKE2s byte counter at
          2^w - block, 2^w - 1 with a non-zero high word, the 2^32 boundary inside the 64-bit word; cipher block
          counters at 2^32 - 1 with and without a high word), then data fed across the boundary: values validated
          by TraceHash / TraceStream (the functional modules take the start counter) in every profile + lock-step;
       W. the in-domain workloads of C01-C15 executed in all three profiles, validated in lock-step (their
          functional validation on the release build is those properties' own check; the checked-release trace of
          a subset is validated functionally here as well)."""
import os
import vlib
from props import hashcommon as hc
from props import streamcommon as sc

TAGS = ["rel", "relchk", "dbg"]
NONCE = {"ietf": 12, "xchacha": 24, "original": 8, "salsa": 8, "xsalsa": 24}


def limbs(n):
    return [(n >> (16 * i)) & 0xffff for i in range(4)]


def describe(r, v):
    e = r["ev"][v[1] - 1] if 0 < v[1] <= len(r["ev"]) else {}
    d = {"cls": r.get("cls"), "op": e.get("op") or e.get("fn")}
    if "api" in e and isinstance(e["api"], dict):
        d["entry"] = e["api"]["entry"]
        d["v"] = e["api"]["v"]
    for k in ("alg", "variant"):
        if k in r:
            d[k] = r[k]
    return d


def genuine_tag(R):
    """the tag the one-shot object itself produces for the fixed first-use input (input selection: the verdict on the decrypt that consumes it is
    computed by TraceAead like any other)"""
    if not hasattr(R, "_c20_tag"):
        kb = lambda tag, n: vlib.prng_bytes(R.seed, "c20/" + tag, n)
        h = {"id": "c20-tag", "cls": "aead1", "rounds": 20, "key": kb("key", 32), "nonce": kb("nonce", 12), "aad": kb("aad", 5), "ev": [{"op": "new"}, {"op": "encrypt", "data": kb("first", 3)}]}
        out = R.drive_on([h], "rel", "c20tag")[0]["ev"][1]["out"]
        if out["k"] != "v" or len(out["v"]) != 3 + 16:
            raise vlib.ToolError("cannot obtain a tag for the reuse shapes: %s" % out)
        R._c20_tag = out["v"][3:]
    return R._c20_tag


def concretise(R, s, legal):
    """one ApiDomain shape -> (history, functional trace module or None)"""
    kb = lambda tag, n: vlib.prng_bytes(R.seed, "c20/" + tag, n)
    e, v, a, b, c, d = s["entry"], s["v"], s["a"], s["b"], s["c"], s["d"]
    api = dict(s)
    hid = R.next_id()
    if e in ("cipher_new", "xcipher_new"):
        h = {"cls": "stream", "variant": v, "rounds": b, "key": kb("key", a), "nonce": kb("nonce", NONCE[v]), "ev": [{"op": "new", "api": api}]}
        if legal:
            h["ev"].append({"op": "process", "x": 1, "data": kb("d", 10)})
        tm = "TraceStream"
    elif e == "drg_new":
        h = {"cls": "drg", "rounds": b, "seed": kb("seed", 32), "ev": [{"op": "new", "api": api}] + ([{"op": "bytes", "n": 8}] if legal else [])}
        tm = "TraceStream"
    elif e == "aead_new":
        h = {"cls": "aead" if v == "inc" else "aead1", "rounds": b, "key": kb("key", a), "nonce": kb("nonce", 12), "aad": kb("aad", 5), "ev": [{"op": "new", "api": api}]}
        tm = "TraceAead"
    elif e == "process":
        h = {"cls": "stream", "variant": v, "rounds": 20, "key": kb("key", 32), "nonce": kb("nonce", NONCE[v]),
             "ev": [{"op": "new"}, {"op": "process", "x": 1, "data": kb("d", a), "n": b, "api": api}, {"op": "process", "x": 1, "data": kb("d2", 3)}]}
        tm = "TraceStream"
    elif e == "aead_crypt":
        h = {"cls": "aead", "rounds": 20, "key": kb("key", 32), "nonce": kb("nonce", 12),
             "ev": [{"op": "new"}, {"op": "add_data", "x": 1, "data": kb("aad", 3)}, {"op": "to_encryption" if v == "encrypt" else "to_decryption", "x": 1},
                    {"op": v, "x": 1, "data": kb("d", a), "n": b, "api": api}]}
        tm = "TraceAead"
    elif e == "aead1":
        ev = [{"op": "new"}]
        if d == 2:
            ev.append({"op": "encrypt", "data": kb("first", 3)})
        elif d == 3:                                       # a decrypt that rejects its tag uses the object up all the same
            ev.append({"op": "decrypt", "data": kb("first", 3), "tag": kb("wrongtag", 16)})
        elif d == 4:
            ev.append({"op": "decrypt", "data": kb("first", 3), "tag": genuine_tag(R)})
        probe = {"op": v, "data": kb("d", a), "n": b, "api": api}
        if v == "encrypt":
            probe["taglen"] = c
        else:
            probe["tag"] = kb("tag", c)
        ev.append(probe)
        h = {"cls": "aead1", "rounds": 20, "key": kb("key", 32), "nonce": kb("nonce", 12), "aad": kb("aad", 5), "ev": ev}
        tm = "TraceAead"
    elif e in ("blake2_new", "blake2_bits"):
        alg = "blake2b" if v.startswith("b_") else "blake2s"
        kind = v[2:]
        key = kb("key", b)
        if kind in ("dyn", "const"):
            h = {"cls": "hash", "alg": alg, "api": kind, "key": key, "keyed": b > 0 or (a + hid) % 2 == 0, "ev": [{"op": "new", "api": api}]}
            if e == "blake2_bits":
                h["bits"] = a
            else:
                h["outlen"] = a
            if legal:
                h["ev"] += [{"op": "update_mut", "x": 1, "data": kb("d", 7)}, {"op": "finalize_reset_at", "x": 1, "n": (a + 7) // 8 if e == "blake2_bits" else a}]
            tm = "TraceHash"
        elif kind == "legacy":
            h = {"cls": "digest", "alg": alg, "outlen": a, "key": key, "keyed": b > 0 or (a + hid) % 2 == 0, "ev": [{"op": "new", "api": api}]}
            if legal:
                h["ev"] += [{"op": "input", "data": kb("d", 7)}, {"op": "result"}]
            tm = "TraceMac"
        else:
            h = {"cls": "mac", "mac": alg, "outlen": a, "key": key, "ev": [{"op": "new", "api": api}]}
            if legal:
                h["ev"] += [{"op": "input", "data": kb("d", 7)}, {"op": "result"}]
            tm = "TraceMac"
    elif e in ("blake2_out", "blake2_rekey"):
        alg = "blake2b" if v in ("b", "bc") else "blake2s"
        h = {"cls": "hash", "alg": alg, "api": "const" if v in ("bc", "sc") else "dyn", "outlen": a if e == "blake2_out" else 32, "key": [],
             "ev": [{"op": "new"}, {"op": "update_mut", "x": 1, "data": kb("d", 5)}]}
        if e == "blake2_rekey":
            h["ev"] += [{"op": "reset_with_key", "x": 1, "key": kb("key", c), "api": api}, {"op": "update_mut", "x": 1, "data": kb("d3", 4)}, {"op": "finalize", "x": 1}]
        elif d == 1:
            h["ev"].append({"op": "finalize_at", "x": 1, "n": b, "api": api})
        elif d == 2:
            h["ev"] += [{"op": "finalize_reset_at", "x": 1, "n": b, "api": api}, {"op": "finalize", "x": 1}]
        else:
            h["ev"] += [{"op": "finalize_reset_with_key_at", "x": 1, "n": b, "key": kb("key", c), "api": api}, {"op": "finalize", "x": 1}]
        tm = "TraceHash"
    elif e in ("digest_result", "digest_phase"):
        h = {"cls": "digest", "alg": v, "ev": [{"op": "new"}, {"op": "input", "data": kb("d", 3)}]}
        if v in hc.BLAKE:
            h.update({"outlen": 32, "key": []})
        if e == "digest_result":
            h["ev"].append({"op": "result", "n": b, "api": api})
            tm = "TraceMac" if legal else None          # TraceMac does not model the buffer-length refusal
        else:
            if a == 1:
                h["ev"].append({"op": "result"})
            h["ev"].append({"op": "input", "data": kb("d2", 2), "api": api})
            tm = "TraceMac"
    elif e in ("hmac_result", "mac_phase"):
        if e == "hmac_result" or v == "hmac":
            alg = v if e == "hmac_result" else "sha256"
            h = {"cls": "mac", "mac": "hmac", "alg": alg, "key": kb("key", 20)}
            if alg in hc.BLAKE:
                h["outlen"] = 32
        elif v == "poly1305":
            h = {"cls": "mac", "mac": "poly1305", "key": kb("key", 32)}
        else:
            h = {"cls": "mac", "mac": v, "outlen": 32, "key": kb("key", 16)}
        h["ev"] = [{"op": "new"}, {"op": "input", "data": kb("d", 3)}]
        if e == "hmac_result":
            h["ev"].append({"op": "raw_result", "n": b, "api": api})
            tm = "TraceMac" if legal else None
        else:
            if a == 1:
                h["ev"].append({"op": "result"})
            h["ev"].append({"op": "input", "data": kb("d2", 2), "api": api})
            tm = "TraceMac"
    elif e == "hkdf_extract":
        h = {"cls": "fn", "ev": [{"op": "hkdf_extract", "alg": v, "salt": kb("salt", 9), "ikm": kb("ikm", 11), "n": b, "api": api}]}
        tm = "TraceKdf"
    elif e == "hkdf_expand":
        h = {"cls": "fn", "ev": [{"op": "hkdf_expand", "alg": v, "prk": kb("prk", 32), "info": kb("info", 4), "n": a, "api": api}]}
        tm = "TraceKdf" if (not legal or a < 200) else None      # the long legal outputs are C10's business (255 blocks of TLC evaluation)
    elif e == "pbkdf2":
        h = {"cls": "fn", "ev": [{"op": "pbkdf2", "alg": v, "pw": kb("pw", 6), "salt": kb("salt", 8), "c": a, "n": 20, "api": api}]}
        tm = "TraceKdf"
    elif e == "scrypt_params":
        h = {"cls": "fn", "ev": [{"op": "scrypt_params", "logn": a, "r": limbs(b), "p": limbs(c), "api": api}]}
        tm = "TraceKdf"
    elif e == "scrypt_out":
        h = {"cls": "fn", "ev": [{"op": "scrypt", "pw": kb("pw", 6), "salt": kb("salt", 8), "logn": 1, "r": 1, "p": 1, "n": a, "api": api}]}
        tm = "TraceKdf"
    elif e == "argon2_params":
        h = {"cls": "fn", "ev": [{"op": "argon2", "type": 2, "version": c, "t": limbs(b), "m": limbs(8), "p": limbs(a), "params_only": True,
                                  "pw": [], "salt": kb("salt", 8), "key": [], "aad": [], "n": 32, "api": api}]}
        tm = "TraceKdf"
    elif e == "ct_slice":
        w = 1 if v == "u8" else 8
        h = {"cls": "ct", "ev": [{"fn": "sl8" if v == "u8" else "sl64", "f": "ct_eq", "a": kb("sa", a * w), "b": (kb("sa", a * w) + kb("sb", b * w))[:b * w], "api": api}]}
        tm = "TraceCT" if legal else None
    elif e == "mac_cmp":
        h = {"cls": "ct", "ev": [{"fn": "mac", "f": v, "a": kb("sa", a), "b": (kb("sa", a) + kb("sb", b))[:b], "api": api}]}
        tm = "TraceCT"
    elif e == "x25519_try_from":
        h = {"cls": "fn", "ev": [{"op": "x25519_try_from", "kind": v, "bytes": kb("x", a), "api": api}]}
        tm = "TraceCurve"
    else:
        raise vlib.ToolError("ApiDomain entry %s has no concretisation" % e)
    if not legal:
        # nothing is asked of an object after it refused a call (the property is about the refusal itself; some entry
        # points, e.g. finalize_reset_with_key_at with an over-long key, panic half-way through): the probe is the last event
        k = max(i for i, x in enumerate(h["ev"]) if "api" in x)
        h["ev"] = h["ev"][: k + 1]
    h["id"] = hid
    return h, tm


def counter_scripts(R, thorough):
    hs, ss = [], []
    # ---- BLAKE2 byte counter next to its word boundaries (RFC 7693: t counts bytes modulo 2^(2w); inputs below 2^(2w) bytes are in domain)
    for alg, w in (("blake2s", 32), ("blake2b", 64)):
        b = hc.BLAKE[alg][0]
        M = 1 << w
        presets = [(M - b, 0), (M - 1, 3), (M - b - 1, 0), (M - 2 * b, M - 2), (0, M - 1), (M - b + 1, 7)]
        if w == 64:
            presets += [((1 << 32) - b, 0), ((1 << 32) - 1, 1)]
        for (t0, t1) in presets:
            for n in ([1, b, b + 1, 3 * b + 5] if thorough else [1, b + 1, 3 * b + 5]):
                if (t1 * M + t0) + n >= M * M:
                    continue
                for kl in (0, 16):
                    data = vlib.prng_bytes(R.seed, "c20ctr/%s/%d" % (alg, n), n)
                    h = {"id": R.next_id(), "cls": "hash", "alg": alg, "api": "dyn", "outlen": hc.BLAKE[alg][1], "key": vlib.prng_bytes(R.seed, "c20k", kl),
                         "ev": [{"op": "new"}, {"op": "set_counter", "x": 1, "t0": limbs(t0), "t1": limbs(t1)}, {"op": "update_mut", "x": 1, "data": data[: n // 2]},
                                {"op": "clone", "x": 1, "y": 2}, {"op": "update_mut", "x": 1, "data": data[n // 2:]}, {"op": "finalize", "x": 1},
                                # the recycled context starts again from a zero counter (both words), whichever call re-initialised it
                                {"op": "clone", "x": 2, "y": 3}, {"op": "finalize_reset", "x": 2}, {"op": "update_mut", "x": 2, "data": data[:7]}, {"op": "finalize", "x": 2},
                                {"op": "update_mut", "x": 3, "data": data[n // 2:]}, {"op": "reset" if kl == 0 else "reset_with_key", "x": 3, "key": vlib.prng_bytes(R.seed, "c20k2", 5)},
                                {"op": "update_mut", "x": 3, "data": data[:9]}, {"op": "finalize", "x": 3}]}
                    hs.append(h)
                    R.count(("ctr", alg, t0 % 997, t1 % 997, n, kl))
    # ---- Merkle-Damgard length counters (u64 bytes for SHA-1 / SHA-256 / RIPEMD-160 families, u128 for SHA-512): preset next to the points where
    # the bit length crosses a word (2^29, 2^32 bytes) and at the top of the documented domain (messages below 2^64 resp. 2^128 bits)
    offs64 = [(1 << 29) - 64, (1 << 29) - 1, 1 << 29, (1 << 32) - 64, (1 << 32) - 1, 1 << 32, (1 << 40) + 3, (1 << 61) - 256]
    offs128 = offs64 + [(1 << 61) - 128, 1 << 61, (1 << 64) - 128, (1 << 64) - 1, 1 << 64, 1 << 93, (1 << 125) - 512]
    for alg in hc.MD:
        b = hc.MD[alg][0]
        for oi, off in enumerate(offs128 if b == 128 else offs64):
            for n in ([0, 1, b - hc.MD[alg][1] - 1, b - 1, b + 1, 3 * b] if thorough else [(0, b - 1, 3 * b + 1)[oi % 3]]):
                data = vlib.prng_bytes(R.seed, "c20len/%s/%d" % (alg, n), n)
                hs.append({"id": R.next_id(), "cls": "hash", "alg": alg,
                           "ev": [{"op": "new"}, {"op": "set_length", "x": 1, "off": list(off.to_bytes(16, "little"))}, {"op": "update_mut", "x": 1, "data": data},
                                  {"op": "clone", "x": 1, "y": 2}, {"op": "finalize", "x": 1}, {"op": "finalize_reset", "x": 2}, {"op": "update_mut", "x": 2, "data": data[:7]},
                                  {"op": "finalize", "x": 2}]})
                R.count(("len", alg, off.bit_length(), n))
    # ---- cipher block counters
    for variant, (nl, keylens, wide) in sc.VARIANTS.items():
        for rounds in (20, 8):
            starts = [0xffffffff, 0xfffffffe, 0xffffffff | (5 << 32), 0xffffffff | (0xffffffff << 32) if False else 0xfffffffe | (0xfffffffe << 32)] if wide else \
                     ([0xfffffffe, 0xffffffff] if variant == "ietf" else [0x7ffffffe])
            for s in starts:
                h = sc.base(R, variant, rounds, keylens[-1], "c20/%s/%d" % (variant, rounds))
                h["id"] = R.next_id()
                d = vlib.prng_bytes(R.seed, "c20s/%s" % variant, 200)
                h["ev"] = [{"op": "new"}, {"op": "set_counter" if wide else "seek", "x": 1, "block": limbs(s)}, {"op": "process", "x": 1, "data": d[:70]},
                           {"op": "process_mut", "x": 1, "data": d[70:]}]
                ss.append(h)
                R.count(("ctr", variant, rounds, s % 997))
    return hs, ss


def run(R):
    thorough = R.tier == "thorough"
    for cfg in ("MC_Counters_wrapping_checked.cfg", "MC_Counters_wrapping_unchecked.cfg"):
        R.model_check("Counters", cfg, need_actions=["Step"], workers=2)
    # the same counter rules at the real word widths, symbolically: one step from an arbitrary counter value (Apalache)
    R.apalache("CountersA", "CInit32")
    R.apalache("CountersA", "CInit64")
    shapes = R.generate("ApiDomain", "GEN_ApiDomain.cfg")
    if len(shapes) < 1000:
        raise vlib.ToolError("ApiDomain printed only %d shapes" % len(shapes))
    vlib.build_many(TAGS)
    # ---- S: shapes
    groups = {}
    allh = []
    entries = {}
    for g in shapes:
        s, legal = g["shape"], g["legal"]
        h, tm = concretise(R, s, legal)
        h["legal"] = legal
        allh.append(h)
        if tm:
            groups.setdefault(tm, []).append(h)
        entries.setdefault(s["entry"], [0, 0])[0 if legal else 1] += 1
        R.count((s["entry"], s["v"], s["a"], s["b"], s["c"], s["d"]), trivial=False)
    by = {t: R.drive_on(allh, t, "S." + t) for t in TAGS}
    for t in TAGS:
        R.judge("TraceApi", by[t], t, describe=describe, label="S.api." + t, cost=lambda r: 1)
        idx = {r["id"]: r for r in by[t]}
        for tm, hs in groups.items():
            R.judge(tm, [idx[h["id"]] for h in hs], t, describe=describe, label="S.%s.%s" % (tm, t),
                    cost={"TraceHash": hc.cost_hash, "TraceStream": sc.cost_stream}.get(tm, vlib.cost_default), timeout=2000)
    R.equiv(by, "S.equiv", describe=describe)
    R.extra["api_entries"] = {k: {"legal_shapes": v[0], "refused_shapes": v[1]} for k, v in sorted(entries.items())}
    for r in by["dbg"][:1] + [r for r in by["dbg"] if not r["legal"]][:3]:
        e = [x for x in r["ev"] if "api" in x][-1]
        R.sample({"shape": e["api"], "legal": r["legal"], "outcome_dbg": e["out"]["k"], "cls": r["cls"]})
    # ---- K: counters across their word boundaries
    hs, ss = counter_scripts(R, thorough)
    for tm, hh, cost in (("TraceHash", hs, hc.cost_hash), ("TraceStream", ss, sc.cost_stream)):
        byk = {t: R.drive_on(hh, t, "K.%s.%s" % (tm, t)) for t in TAGS}
        for t in TAGS:
            R.judge(tm, byk[t], t, describe=describe, label="K.%s.%s" % (tm, t), cost=cost, timeout=2000)
        R.equiv(byk, "K.equiv." + tm, describe=describe)
        r = byk["relchk"][0]
        R.sample({"counter_case": {k: r[k] for k in ("alg", "variant") if k in r}, "events": [(e["op"], e["out"]["k"], vlib.hexs(e["out"]["v"])[:24]) for e in r["ev"]]})
    # ---- W: in-domain workloads of the other properties in every profile
    mods = ["c%02d" % i for i in range(1, 16)] if thorough else ["c01", "c03", "c05", "c06", "c08", "c10", "c11", "c12", "c13", "c15"]
    heavy_fv = {"c03", "c05"}
    for m in mods:
        for w in vlib.collect_workload(R, m, "quick"):
            byw = {"rel": w["records"]}
            for t in TAGS[1:]:
                byw[t] = R.drive_on(w["histories"], t, "W.%s.%s.%s" % (m, w["label"], t))
            R.equiv(byw, "W.equiv.%s.%s" % (m, w["label"]), describe=describe)
            if m in heavy_fv:
                R.judge(w["trace_module"], byw["relchk"], "relchk", describe=describe, label="W.%s.relchk" % m, cost=w["cost"], timeout=2000)
            for r in w["records"]:
                R.count((m, r["id"]))
    R.rule = ("S: every shape of ApiDomain.Shapes (%d; per entry point: each length / count / parameter one below and one above its legal values, zero, large) as one call "
              "sequence x 3 profiles, outcome class by TraceApi, values by the functional trace specs, lock-step by TraceEquiv; K: BLAKE2b/s counter presets "
              "{2^w-B, 2^w-1 (+high), 2^w-B-1, 2^w-2B with high 2^w-2, high 2^w-1, 2^32 boundary} x lengths x keyed/unkeyed and cipher counters at the 2^32 boundary; SHA-1 / SHA-2 / RIPEMD-160 processed-bytes counts preset at {2^29, 2^32, 2^61, (SHA-512: 2^64, 2^125)} +- "
              "x 3 profiles; W: quick workloads of " + ",".join(mods) + " x 3 profiles in lock-step") % len(shapes)
    R.assumptions += ["outputs of messages long enough to reach a counter boundary without the preset hooks (>= 4 GiB) are not produced; the boundary is reached through the hooks",
                      "hash length counters are preset through a hook (a 512 MiB message cannot be validated by TLC); SHA-3 / Keccak keep no length",
                      "an input that would take a counter past its total range (2^64 bytes for BLAKE2s, 2^128 for BLAKE2b) is outside the documented domain and not exercised",
                      "parameter ranges the crate documents as unchecked (Argon2 salt < 8, tag < 4, memory raised silently) are outside the property"]
