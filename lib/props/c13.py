"""C13 - Ed25519 key generation and signing equal RFC 8032 for every seed and message.

MC:  Recode.tla - the signed radix-16 recoding used by the fixed-base multiplication, for every scalar of 11 bits.
TV:  keypair (layout seed||public, accessors), extended_to_public, signature, signature_extended (must equal the
     seed's signature), exchange (= X25519 of the hashed secret with the birationally mapped public key), on
     seeds {seeded, zero, all-ones, seeds whose clamped scalar carries into the top radix-16 digit} x message
     lengths straddling the SHA-512 block boundaries after the 32- and 64-byte prefixes, plus messages SELECTED so
     that the nonce hash or the challenge hash falls into the rare wrap-around branch of the mod-L reduction.
     TLC recomputes RFC 8032 with Ed25519.tla (SHA-512, mod-L arithmetic, double-and-add on the Edwards curve)."""
import hashlib
import vlib
from props import curvecommon as cc


def run(R):
    thorough = R.tier == "thorough"
    R.model_check("Recode", "MC_Recode.cfg" if not thorough else "MC_Recode4.cfg", need_actions=["Check"], workers=8)
    # the Barrett reduction of the scalar back-end (HAC 14.42), exhaustively for every modulus and input at small radix: value, wrap branch, <= 2 subtractions
    R.model_check("Barrett", "MC_Barrett_2_5.cfg" if not thorough else "MC_Barrett_4_3.cfg", need_actions=["StepPlain", "StepWrap", "StepSub1", "StepSub2"], workers=4)
    rb = lambda t, n=32: vlib.prng_bytes(R.seed, "c13/" + t, n)
    evs = []
    seeds = [("seeded%d" % i, rb("seed%d" % i)) for i in range(24 if not thorough else 64)] + [("zero", [0] * 32), ("ones", [255] * 32)]
    # seeds whose clamped scalar has top nibble 7 and a carry into it (selected by structure of SHA-512(seed))
    found = 0
    i = 0
    while found < 3 and i < 4000:
        s = rb("carry%d" % i)
        ext = cc.extended_secret(s)
        if ext[31] >> 4 == 7 and (ext[31] & 15) >= 8:
            seeds.append(("topcarry%d" % found, s))
            found += 1
        i += 1
    for name, s in seeds:
        evs.append(({"op": "ed_keypair", "seed": s}, ("keypair", name)))
    for name, s in seeds[:6] + seeds[-3:]:
        ext = cc.extended_secret(s)
        evs.append(({"op": "ed_extended_to_public", "ext": ext}, ("ext2pub", name)))
    # quick: the SHA-512 padding classes of both hashes of a signature: the nonce hash absorbs 32 + n bytes, the challenge hash 64 + n;
    # total length mod 128 in {111 (length field fits exactly), 112 (spill block), 127, 0, 1} for either of them, + small / long
    lens = list(range(0, 301)) if thorough else sorted({0, 1, 31, 32, 300} | {t - pre + k * 128 for pre in (32, 64) for t in (111, 112, 127, 128, 129) for k in (0, 1)})
    # long messages: both hashes then receive several whole 128-byte blocks in one update (a bulk path of the compression loop)
    lens += [320, 353, 700] + ([1025, 2000] if thorough else [])
    s0 = seeds[0][1]
    stream = rb("msg", 2100)
    for n in lens:
        evs.append(({"op": "ed_signature", "seed": s0, "msg": stream[:n]}, ("sign", "len%d" % n)))
    for j, (name, s) in enumerate(seeds[1:(64 if thorough else 8)] + seeds[-3:]):
        m = rb("m%d" % j, (j * 37) % 200)
        evs.append(({"op": "ed_signature", "seed": s, "msg": m}, ("sign", name)))
        if j % 2 == 0:
            evs.append(({"op": "ed_signature_extended", "ext": cc.extended_secret(s), "seed": s, "msg": m}, ("signext", name)))
    # an extended secret that is not the image of a seed (arbitrary 64 bytes, scalar part clamped by the caller)
    ext = rb("freeext", 64)
    ext[0] &= 248; ext[31] &= 63; ext[31] |= 64
    evs.append(({"op": "ed_signature_extended", "ext": ext, "msg": rb("fm", 45)}, ("signext", "free")))
    evs.append(({"op": "ed_extended_to_public", "ext": ext}, ("ext2pub", "free")))
    # a keypair whose public half is not the seed's public key: the bytes given are the ones hashed (RFC 8032 5.1.6 step 4)
    evs.append(({"op": "ed_signature", "keypair": s0 + cc.ed_public(seeds[1][1]), "msg": [1, 2, 3]}, ("sign", "foreign-public")))
    # messages selected so that a reduction modulo L takes its wrap-around branch (nonce hash / challenge hash)
    nw = 0
    for t in range(60000):
        if nw >= (6 if thorough else 2):
            break
        m = list(hashlib.sha256(("%d/c13wrap/%d" % (R.seed, t)).encode()).digest()[: 1 + t % 31])
        ext0 = cc.extended_secret(s0)
        rw = int.from_bytes(hashlib.sha512(bytes(ext0[32:]) + bytes(m)).digest(), "little")
        if cc.barrett_class(rw)[0]:
            evs.append(({"op": "ed_signature", "seed": s0, "msg": m}, ("sign", "nonce-wrap%d" % nw)))
            nw += 1
    nh = 0
    for t in range(6000):
        if nh >= (6 if thorough else 2):
            break
        m = list(hashlib.sha256(("%d/c13hwrap/%d" % (R.seed, t)).encode()).digest()[: 1 + t % 31])
        rw, hw = cc.ed_sign_parts(s0, m)
        if cc.barrett_class(hw)[0]:
            evs.append(({"op": "ed_signature", "seed": s0, "msg": m}, ("sign", "hram-wrap%d" % nh)))
            nh += 1
    R.extra["selected_wrap_inputs"] = {"nonce_hash": nw, "challenge_hash": nh}
    for j, (name, s) in enumerate(seeds[:4] + seeds[-2:]):
        peer = cc.ed_public(seeds[(j + 1) % len(seeds)][1])
        evs.append(({"op": "ed_exchange", "pk": peer, "sk": s}, ("exchange", name)))
    evs.append(({"op": "ed_exchange", "pk": peer[:31] + [peer[31] ^ 128], "sk": s0}, ("exchange", "signbit")))
    hs = []
    evs.append(({"op": "ed_consts"}, ("consts",)))          # the public size constants
    # the scalar routines signing is composed of, on inputs directed at their rare borrow classes (unreachable through hash outputs)
    evs += cc.signing_scalar_events(R, 40 if thorough else 12)
    for e, key in evs:
        hs.append({"id": R.next_id(), "cls": "fn", "ev": [e]})
        R.count(key, trivial=False)
    R.rule = ("one call per event: keypair on %d seeds (seeded, zero, ones, 3 selected with a carry into the top radix-16 digit), extended_to_public, signature over message lengths "
              % len(seeds) + ("0..300" if thorough else "{0,1,31,32,63,64,95,96,111,112,127,128,300}") + " and seeded (seed, message) pairs, signature_extended with the seed logged (must equal "
              "the seed's signature) and with a free extended secret, a keypair with a foreign public half, messages selected for the wrap-around branch of the mod-L reduction, exchange; "
              "distinct = (function, seed/length class)")
    res = R.conform("TraceCurve", hs, cost=cc.cost_curve, describe=lambda r, v: {"cls": "fn", "op": r["ev"][0]["op"]}, label="TraceCurve.ed", timeout=4000)
    for r in res["records"][:2] + res["records"][40:42] + res["records"][-2:]:
        e = r["ev"][0]
        R.sample({"op": e["op"], "seed": vlib.hexs(e.get("seed", []))[:16], "msg_len": len(e.get("msg", [])), "out": vlib.hexs(e["out"]["v"])[:48]})
