"""C11 - Argon2d/i/id equal RFC 9106 for all parameters and tag lengths.

TV:  one call per event, TLC recomputes the tag with Argon2.tla (H0, H', the (pass, slice, lane, index) position
     machine with its three reference-area cases, address blocks refreshed every 128 indices, XOR-into for v0x13, G).
     quick: types x versions x t in {1,2} x p in {1,2} x m in {8p, 8p+3, 16p}, tag lengths {4,32,64,65,100}, empty and
     non-empty key/aad, array-returning vs slice-filling entry point.
     thorough: t <= 4, p <= 5, m not divisible by 4p, a single-lane Argon2i with segment length 129 (second address
     block), tag lengths to 300, the three RFC 9106 section 5 vectors."""
import vlib
from props.streamcommon import limbs


def cost_a2(rec):
    e = rec["ev"][0]
    if e["op"] != "argon2":
        return 1 + (20 if e["op"] == "argon2_built" else 0.05 * len(rec["ev"]))
    m, p, t, n = e["m"][0], max(1, e["p"][0]), e["t"][0], e["n"]
    mp = 4 * p * (m // (4 * p))
    return 5 + 0.8 * 2 * p + 0.07 * mp * t * (1.2 if e["type"] else 1.0) + 0.03 * (n // 32 + 1)


def run(R):
    thorough = R.tier == "thorough"
    rb = lambda t, n: vlib.prng_bytes(R.seed, "c11/" + t, n)
    evs = []

    def add(y, ver, t, m, p, n, pwl=16, sl=16, kl=0, al=0, api="at", label=""):
        evs.append({"op": "argon2", "type": y, "version": ver, "t": limbs(t), "m": limbs(m), "p": limbs(p), "n": n, "api": api,
                    "pw": rb("pw%d%d" % (pwl, len(evs)), pwl), "salt": rb("salt%d" % len(evs), sl), "key": rb("key%d" % len(evs), kl), "aad": rb("aad%d" % len(evs), al)})
        R.count((y, ver, t, m, p, n, pwl, sl, kl, al, api))

    tags = [4, 32, 64, 65, 100, 96, 128]
    i = 0
    for y in (0, 1, 2):
        for ver in (0x10, 0x13):
            for t in ((1, 2, 3, 4) if thorough else (1, 2)):
                for p in ((1, 2, 3, 5) if thorough else (1, 2)):
                    ms = [8 * p, 8 * p + 3, 16 * p] + ([8 * p + 4 * p - 1, 24 * p + 1] if thorough else [])
                    if not thorough:
                        ms = [ms[i % 3]] if (t, p) != (1, 1) else ms
                    for m in ms:
                        n = tags[i % 7]
                        kl, al = ((0, 0), (8, 12), (32, 0), (0, 5))[i % 4]
                        add(y, ver, t, m, p, n, pwl=(0, 16, 32, 7)[i % 4], sl=(8, 16, 11, 40)[i % 4], kl=kl, al=al, api="arr" if i % 3 == 0 else "at")
                        i += 1
    # RFC 9106 section 5 parameter set (password 01*32, salt 02*16, secret 03*8, ad 04*12, t=3, m=32, p=4, T=32)
    for y in (0, 1, 2):
        evs.append({"op": "argon2", "type": y, "version": 0x13, "t": limbs(3), "m": limbs(32), "p": limbs(4), "n": 32, "api": "arr", "pw": [1] * 32, "salt": [2] * 16, "key": [3] * 8, "aad": [4] * 12})
        R.count(("rfc9106-5", y))
    if thorough:
        add(1, 0x13, 1, 516, 1, 32, label="segment length 129: second address block")
        add(2, 0x13, 2, 520, 1, 32)
        for n in (5, 63, 96, 128, 129, 200, 300):
            add(2, 0x13, 1, 8, 1, n)
        add(0, 0x13, 1, 2048, 4, 64)
    else:
        add(1, 0x13, 1, 8, 1, 300 if R.seed % 2 else 129)
        add(2, 0x13, 1, 8, 1, 160)
        add(1 if R.seed % 2 else 2, 0x13, 1, 520, 1, 32, label="segment length 130: second address block")
    hs = [{"id": R.next_id(), "cls": "fn", "ev": [e]} for e in evs]
    # ---- the parameter builder as an object machine: every setter sequence (any order, repeated) printed by TLC from Argon2Params.tla;
    # the derived geometry is read back through the hook for all of them, tags are computed with the built parameters for a part
    R.model_check("Argon2Params", "MC_Argon2Params.cfg", need_actions=["SetM", "SetP", "SetT"], workers=4)
    from props import hashcommon as hc
    cfg = hc.write_cfg(R, "GEN_Argon2Params", {"Ms": hc.tla_set([40, 64, 100, 107]), "Ps": hc.tla_set([1, 3, 5]), "MaxOps": 3 if not thorough else 4, "Gen": "TRUE"}, ["InvGeometry", "Emit"])
    seqs = R.generate("Argon2Params", cfg)
    sset = lambda q: [{"k": x["k"], "v": limbs(x["v"])} for x in q]
    ntag = 0
    for j, q in enumerate(seqs):
        hs.append({"id": R.next_id(), "cls": "fn", "ev": [{"op": "argon2_geometry", "setters": sset(q)}]})
        R.count(("geometry", tuple((x["k"], x["v"]) for x in q)))
        # tags: sequences with a repeated setter (the interesting ones), a seeded part of them
        kinds = [x["k"] for x in q]
        if len(set(kinds)) < len(kinds) and ntag < (40 if thorough else 10) and R.rng.random() < 0.2:
            ntag += 1
            hs.append({"id": R.next_id(), "cls": "fn", "ev": [{"op": "argon2_built", "type": j % 3, "setters": sset(q), "n": 32, "pw": rb("bpw", 9), "salt": rb("bsalt", 16),
                                                              "key": [], "aad": [], "t": limbs(1), "m": limbs(40), "p": limbs(1)}]})
            R.count(("built", tuple((x["k"], x["v"]) for x in q)))
    # refused setters inside a sequence: the first refusal names the error
    for q in ([("m", 64), ("p", 0)], [("p", 1 << 24), ("t", 0)], [("t", 0), ("p", 0)], [("v", 0x11)], [("p", 2), ("v", 0x13), ("t", 2), ("v", 0x14)]):
        hs.append({"id": R.next_id(), "cls": "fn", "ev": [{"op": "argon2_geometry", "setters": [{"k": k, "v": limbs(v)} for k, v in q]}]})
        R.count(("refused", tuple(q)))
    # ---- the reference-index computation (RFC 9106 3.4.2) through the hook, where whole tags cannot reach: large geometries (the hook
    # allocates nothing), every position case (first pass / later passes, first slice, same lane / other lane, index 0), and J1 values
    # for which each of the two truncations of the mapping matters
    def tight_j1(w, rng, want):
        out = []
        for _ in range(400000):
            j = rng.getrandbits(32)
            x = (j * j) >> 32
            if (w * x) >> 32 != (w * j * j) >> 64:        # truncating once instead of twice would give another block
                out.append(j)
                if len(out) >= want:
                    break
        return out
    nidx = 0
    for (m, p) in ((1 << 29, 1), ((1 << 28) + 12345, 3), (1 << 20, 4), (4096, 1), (40, 1), (107, 5)):
        lane = 4 * (m // (4 * p))
        sl = lane // 4
        cases = [(0, 0, 2, 1), (0, 0, sl - 1, 1), (0, 1, 0, 1), (0, 1, 0, 0), (0, 2, 1, 0), (0, 3, sl - 1, 1), (1, 0, 0, 1), (1, 0, 0, 0), (1, 1, 1, 0), (1, 2, sl - 1, 1),
                 (1, 3, 0, 0), (1, 3, 5 % sl, 1), (2, 3, sl - 1, 0)]
        for (r, sli, i, same) in cases:
            if p == 1 and same == 0:
                continue
            if r == 0 and sli == 0:
                w = i - 1
            elif r == 0:
                w = sli * sl + i - 1 if same else (sli * sl - 1 if i == 0 else sli * sl)
            else:
                w = lane - sl + i - 1 if same else (lane - sl - 1 if i == 0 else lane - sl)
            if w < 1:
                continue
            js = [0, 1, 0xffff, 0x10000, 0x7fffffff, 0x80000000, 0xffffffff, R.rng.getrandbits(32)] + tight_j1(w, R.rng, 3 if not thorough else 12)
            ev = [{"op": "argon2_index_alpha", "setters": [{"k": "m", "v": limbs(m)}, {"k": "p", "v": limbs(p)}], "pass": r, "slice": sli, "index": i, "same": same,
                   "j1": [j & 0xffff, j >> 16]} for j in js]
            hs.append({"id": R.next_id(), "cls": "fn", "ev": ev})
            nidx += len(ev)
            R.count(("index_alpha", m, p, r, sli, i, same))
    R.extra["index_alpha_evaluations"] = nidx
    R.extra["builder_sequences"] = len(seqs)
    R.rule = ("one argon2 call per event over (type d/i/id, version 0x10/0x13, t, p, m incl. values not divisible by 4p, tag length crossing 64, pw/salt/key/aad lengths incl. empty, "
              "argon2::<T> vs argon2_at) + the RFC 9106 section 5 parameter set" + ("; thorough adds t<=4, p<=5, segment length 129, tag lengths to 300, m=2048" if thorough else "") +
              "; distinct = full parameter tuple; all non-trivial")
    res = R.conform("TraceKdf", hs, cost=cost_a2, describe=lambda r, v: {"cls": "fn", "op": r["ev"][0]["op"], "type": r["ev"][0].get("type"), "version": r["ev"][0].get("version")},
                    timeout=5000 if thorough else 1200, label="TraceKdf.argon2")
    for r in [x for x in res["records"] if x["ev"][0]["op"] == "argon2"][:2] + [x for x in res["records"] if x["ev"][0]["op"] == "argon2"][-3:]:
        e = r["ev"][0]
        R.sample({"type": e["type"], "version": e["version"], "t": e["t"][0], "m": e["m"][0], "p": e["p"][0], "tag_len": e["n"], "api": e["api"], "keylen": len(e["key"]),
                  "aadlen": len(e["aad"]), "tag": vlib.hexs(e["out"]["v"])[:32]})
    R.notes.append("Argon2 has no state across calls; the object machine of this property is the parameter builder (Argon2Params.tla); the position machine (pass, slice, lane, index) is part of Argon2.tla")
