"""Infrastructure shared by all property checks.

Nothing in here knows what a correct answer is: it builds the harness from /repo's working tree,
runs operation scripts through it, hands the recorded observation traces to TLC together with a
trace specification, and turns TLC's per-history DONE/BAD lines into evidence, replay files and the
exit code.  Exit codes: 0 = everything explored was accepted, 1 = violation (with a VIOLATION line
and a replay file), 2 = tool error / timeout (never reported as a violation).
"""
import hashlib
import json
import os
import random
import re
import shutil
import subprocess
import sys
import time

ROOT = os.path.dirname(os.path.dirname(os.path.abspath(__file__)))
SPEC = os.path.join(ROOT, "spec")
HARNESS = os.environ.get("VERIF_HARNESS", os.path.join(ROOT, "harness"))
WORK = os.environ.get("VERIF_WORK", os.path.join(ROOT, "work"))
EVID = os.environ.get("VERIF_EVID", os.path.join(ROOT, "evidence"))       # overridden when a seeded change is being tried
REPLAYS = os.environ.get("VERIF_REPLAYS", os.path.join(ROOT, "replays"))
REPO = os.environ.get("VERIF_REPO", "/repo")
JARS = "/opt/veriftools/tla/tla2tools.jar:/opt/veriftools/tla/CommunityModules-deps.jar"
NCPU = int(os.environ.get("VERIF_JOBS", "16"))


class ToolError(Exception):
    pass


def log(*a):
    print(*a, file=sys.stderr, flush=True)


# ------------------------------------------------------------------------------------------ TLC
class TlcResult:
    def __init__(self, out, rc, wall):
        self.out = out
        self.rc = rc
        self.wall = wall
        self.printed = []
        for line in out.splitlines():
            if line.startswith('"[') or line.startswith('"{'):
                try:
                    self.printed.append(json.loads(json.loads(line)))
                except Exception:
                    pass
        m = re.findall(r"(\d+) states generated, (\d+) distinct states found", out)
        self.generated, self.distinct = (int(m[-1][0]), int(m[-1][1])) if m else (0, 0)
        m = re.search(r"depth of the complete state graph search is (\d+)", out)
        self.depth = int(m.group(1)) if m else 0
        self.actions = {}
        for m in re.finditer(r"^<(\w+) line \d+, col \d+ to line \d+, col \d+ of module (\w+)(?: \([\d ]+\))?>: (\d+):(\d+)", out, re.M):
            self.actions[m.group(1)] = (int(m.group(3)), int(m.group(4)))
        self.error = None
        if "Error:" in out or rc not in (0,):
            m = re.search(r"Error:.*", out, re.S)
            self.error = (m.group(0) if m else out[-1500:])[:3000]
        self.invariant_violated = re.findall(r"Invariant (\w+) is violated", out)


def tlc_cmd(module, cfg, metadir, workers=1, coverage=False, xmx="3g", extra=()):
    # a small young generation keeps a single-worker evaluator in cache and avoids page-faulting through
    # gigabytes of fresh heap (measured: 5.0 s -> 2.9 s per shard under load, sys time 3.9 s -> 0.5 s)
    gc = ["-XX:+UseSerialGC", "-Xmn96m"] if workers == 1 else ["-XX:+UseParallelGC"]
    # TLC's scratch directories go under the run's own work directory, not /tmp
    jtmp = os.path.join(os.path.dirname(os.path.abspath(metadir)), "jtmp")
    os.makedirs(jtmp, exist_ok=True)
    cmd = ["java", "-Xss1g", "-Xmx" + xmx, "-Djava.io.tmpdir=" + jtmp] + gc + [
"-cp", JARS, "tlc2.TLC", "-workers", str(workers), "-noGenerateSpecTE", "-nowarning",
           "-metadir", metadir, "-config", cfg]
    if coverage:
        cmd += ["-coverage", "1"]
    cmd += list(extra)
    cmd.append(module + ".tla")
    return cmd


def spawn_tlc(module, cfg, metadir, env=None, **kw):
    e = dict(os.environ)
    e.pop("JAVA_TOOL_OPTIONS", None)
    if env:
        e.update(env)
    shutil.rmtree(metadir, ignore_errors=True)
    return subprocess.Popen(tlc_cmd(module, cfg, metadir, **kw), cwd=SPEC, env=e, stdout=subprocess.PIPE,
                            stderr=subprocess.STDOUT, text=True)


def run_tlc(module, cfg, metadir, env=None, timeout=900, **kw):
    t0 = time.time()
    p = spawn_tlc(module, cfg, metadir, env=env, **kw)
    try:
        out, _ = p.communicate(timeout=timeout)
    except subprocess.TimeoutExpired:
        p.kill()
        p.communicate()
        raise ToolError("TLC timeout after %ds: %s %s" % (timeout, module, cfg))
    finally:
        shutil.rmtree(metadir, ignore_errors=True)
    return TlcResult(out, p.returncode, time.time() - t0)


# ------------------------------------------------------------------------------------------ builds
BUILDS = {
    # tag: (cargo profile args, RUSTFLAGS, harness features)
    "rel": (["--release"], "", ""),
    "sse41": (["--release"], "-C target-feature=+sse4.1", ""),
    "avx": (["--release"], "-C target-feature=+avx", ""),
    "avx2": (["--release"], "-C target-feature=+avx2", ""),
    "f32": (["--release"], "", "f32"),
    "dbg": ([], "", ""),
    "relchk": (["--release"], "-C overflow-checks=on -C debug-assertions=on", ""),
}
_built = {}
_link_lock = __import__("threading").Lock()


def _ensure_link():
    link = os.path.join(HARNESS, "repo-link")
    with _link_lock:
        if not os.path.islink(link) or os.readlink(link) != REPO:
            try:
                os.remove(link)
            except FileNotFoundError:
                pass
            os.symlink(REPO, link)


def build(tag, allow_fail=False):
    """cargo-build the harness against /repo's current working tree in configuration `tag`."""
    if tag in _built:
        return _built[tag]
    prof, flags, feats = BUILDS[tag]
    # the harness depends on the crate through the link harness/repo-link -> VERIF_REPO (default /repo), so that a run can be
    # pointed at a scratch copy of the repository; builds of another repository get their own target directory
    _ensure_link()
    tdir = os.path.join(HARNESS, "target", tag if REPO == "/repo" else "%s-%s" % (tag, hashlib.sha256(REPO.encode()).hexdigest()[:8]))
    cmd = ["cargo", "build", "--offline", "--manifest-path", os.path.join(HARNESS, "Cargo.toml"), "--target-dir", tdir] + prof
    if feats:
        cmd += ["--features", feats]
    env = dict(os.environ)
    env["RUSTFLAGS"] = (flags + " --cap-lints allow").strip()
    env["CARGO_NET_OFFLINE"] = "true"
    t0 = time.time()
    p = subprocess.run(cmd, env=env, capture_output=True, text=True, cwd=HARNESS)
    if p.returncode != 0:
        if allow_fail:
            _built[tag] = None
            return (None, p.stderr[-4000:])
        raise ToolError("harness build '%s' failed:\n%s" % (tag, p.stderr[-4000:]))
    binp = os.path.join(tdir, "release" if "--release" in prof else "debug", "drive")
    log("[build %s] %.1fs" % (tag, time.time() - t0))
    _built[tag] = binp
    return binp


def build_many(tags, allow_fail=()):
    """build several configurations concurrently (separate target directories); returns {tag: path | (None, stderr)}"""
    import concurrent.futures as cf
    with cf.ThreadPoolExecutor(max_workers=len(tags)) as ex:
        futs = {t: ex.submit(build, t, t in allow_fail) for t in tags}
        return {t: f.result() for t, f in futs.items()}


# ------------------------------------------------------------------------------------------ drive
def _drive_one(binary, script_path, trace_path, nlines, timeout):
    """run one drive process over a script; restart after a crash, recording the outcome 'crash'
    for the history that was executing."""
    first = 0
    crashes = []
    if os.path.exists(trace_path):
        os.remove(trace_path)
    while first < nlines:
        p = subprocess.run([binary, script_path, trace_path, str(first)], capture_output=True, text=True, timeout=timeout)
        if p.returncode == 0:
            break
        # which history was running?
        marks = [int(x[2:]) for x in p.stderr.splitlines() if x.startswith("H ")]
        done = sum(1 for _ in open(trace_path)) if os.path.exists(trace_path) else 0
        cur = marks[-1] if marks else first
        if p.returncode == 2 and not marks:
            raise ToolError("drive failed: " + p.stderr[-500:])
        # lines [first, cur) are complete; `cur` crashed
        with open(script_path) as f:
            lines = f.read().splitlines()
        h = json.loads(lines[cur])
        for e in h.get("ev", []):
            e["out"] = {"k": "c", "v": []}
        h["crash"] = p.returncode
        # make sure the trace has exactly `cur` lines before appending the crash record
        with open(trace_path) as f:
            have = f.read().splitlines() if os.path.exists(trace_path) else []
        have = have[:cur]
        have.append(json.dumps(h))
        with open(trace_path, "w") as f:
            f.write("\n".join(have) + "\n")
        crashes.append(cur)
        first = cur + 1
    return crashes


def drive(binary, histories, workdir, tag="rel", nproc=None, timeout=1800):
    """Execute histories (list of dicts) with the harness binary; returns the observed records in order."""
    os.makedirs(workdir, exist_ok=True)
    nproc = nproc or min(NCPU, max(1, len(histories) // 8))
    chunks = [histories[i::nproc] for i in range(nproc)]
    procs = []
    import concurrent.futures as cf
    paths = []
    for i, ch in enumerate(chunks):
        sp = os.path.join(workdir, "script.%s.%d.ndjson" % (tag, i))
        tp = os.path.join(workdir, "trace.%s.%d.ndjson" % (tag, i))
        with open(sp, "w") as f:
            for h in ch:
                f.write(json.dumps(h, separators=(",", ":")) + "\n")
        paths.append((sp, tp, len(ch)))
    with cf.ThreadPoolExecutor(max_workers=nproc) as ex:
        futs = [ex.submit(_drive_one, binary, sp, tp, n, timeout) for sp, tp, n in paths]
        for f in futs:
            f.result()
    out = [None] * len(histories)
    for i, (sp, tp, n) in enumerate(paths):
        recs = [json.loads(l) for l in open(tp)] if n else []
        if len(recs) != n:
            raise ToolError("drive produced %d of %d histories" % (len(recs), n))
        for j, r in enumerate(recs):
            out[i + j * nproc] = r
    for r in out:
        for e in r.get("ev", []):
            if e.get("out", {}).get("k") == "bad":
                raise ToolError("harness cannot execute script: %s (history %s)" % (e["out"].get("msg"), r.get("id")))
    return out


# ------------------------------------------------------------------------------------------ trace validation
def cost_default(rec):
    return 1 + sum(len(json.dumps(e)) for e in rec.get("ev", [])) / 200.0


def validate(trace_module, records, workdir, shards=None, cost=cost_default, timeout=1500, cfg=None, label="tv"):
    """Hand recorded histories to TLC with the trace specification `trace_module`.
    Returns (verdicts, stats): verdicts[id] = ("DONE", n) | ("BAD", l, expected, observed)."""
    os.makedirs(workdir, exist_ok=True)
    cfg = cfg or (trace_module + ".cfg")
    shards = shards or min(NCPU, max(1, len(records) // 4))
    order = sorted(range(len(records)), key=lambda i: -cost(records[i]))
    loads = [0.0] * shards
    parts = [[] for _ in range(shards)]
    for i in order:
        k = loads.index(min(loads))
        parts[k].append(records[i])
        loads[k] += cost(records[i])
    procs = []
    t0 = time.time()
    for k, part in enumerate(parts):
        if not part:
            continue
        tp = os.path.join(workdir, "%s.%s.%d.ndjson" % (label, trace_module, k))
        with open(tp, "w") as f:
            for r in part:
                f.write(json.dumps(r, separators=(",", ":")) + "\n")
        md = os.path.join(workdir, "meta.%s.%s.%d" % (label, trace_module, k))
        procs.append((k, tp, md, spawn_tlc(trace_module, cfg, md, env={"TRACE": tp})))
    verdicts = {}
    extras = []
    gen = dist = 0
    for k, tp, md, p in procs:
        try:
            out, _ = p.communicate(timeout=max(1, timeout - (time.time() - t0)))
        except subprocess.TimeoutExpired:
            for _, _, _, q in procs:
                q.kill()
            raise ToolError("TLC trace validation timeout (%s, %ds)" % (trace_module, timeout))
        finally:
            shutil.rmtree(md, ignore_errors=True)
        r = TlcResult(out, p.returncode, 0)
        if r.error:
            raise ToolError("TLC error in trace validation %s shard %d:\n%s" % (trace_module, k, r.error))
        gen += r.generated
        dist += r.distinct
        for v in r.printed:
            if isinstance(v, list) and v and v[0] not in ("DONE", "BAD"):
                extras.append(v)
            if isinstance(v, list) and v and v[0] == "DONE":
                verdicts[v[1]] = ("DONE", v[2])
            elif isinstance(v, list) and v and v[0] == "BAD":
                verdicts.setdefault(v[1], ("BAD", v[2], v[3], v[4]))
                if verdicts[v[1]][0] != "BAD":
                    verdicts[v[1]] = ("BAD", v[2], v[3], v[4])
    # acceptance is not "TLC found no error": every history must have reported, with its full length
    for r in records:
        v = verdicts.get(r["id"])
        if v is None:
            raise ToolError("trace spec %s consumed nothing for history %s" % (trace_module, r["id"]))
        if v[0] == "DONE" and v[1] != len(r["ev"]):
            raise ToolError("trace spec %s: history %s accepted at %d of %d events" % (trace_module, r["id"], v[1], len(r["ev"])))
    stats = {"module": trace_module, "histories": len(records), "events": sum(len(r["ev"]) for r in records),
             "states": dist, "transitions": gen, "wall_s": round(time.time() - t0, 1), "shards": len(procs)}
    stats["_extras"] = extras
    return verdicts, stats


# ------------------------------------------------------------------------------------------ a check run
def prng_bytes(seed, tag, n):
    """deterministic byte string for (seed, tag)"""
    out = b""
    c = 0
    while len(out) < n:
        out += hashlib.sha256(("%d/%s/%d" % (seed, tag, c)).encode()).digest()
        c += 1
    return list(out[:n])


def hexs(b):
    return bytes(b).hex()


class Run:
    def __init__(self, pid, tier, seed, collect=False, work=None):
        self.pid = pid
        self.tier = tier
        self.seed = seed
        self.rng = random.Random("%s/%d" % (pid, seed))
        self.t0 = time.time()
        # collect = True: build the property's workload and execute it on the primary build, but leave the
        # judging to the caller (used by the configuration properties C16, C17, C20, which run the workloads
        # of other properties through several builds)
        self.collect = collect
        self.workloads = []
        self.work = work or os.path.join(WORK, pid)
        shutil.rmtree(self.work, ignore_errors=True)
        os.makedirs(self.work, exist_ok=True)
        self.mc = []          # model-checking runs (object machines)
        self.tv = []          # trace-validation runs
        self.violations = []  # dicts: {desc, record, position, expected, observed, build}
        self.samples = []
        self.notes = []
        self.builds = []
        self.distinct_keys = set()
        self.trivial_keys = set()
        self.evaluations = 0
        self.rule = ""
        self.assumptions = []
        self.extra = {}
        self._hid = 0

    def next_id(self):
        self._hid += 1
        return self._hid

    # ---- model checking of an object machine
    def model_check(self, module, cfg, need_actions=(), workers=4, timeout=900, xmx="6g", extra=()):
        if self.collect:
            return None
        r = run_tlc(module, cfg, os.path.join(self.work, "mc." + cfg), workers=workers, coverage=True, timeout=timeout, xmx=xmx, extra=extra)
        if r.error or r.invariant_violated:
            raise ToolError("model checking %s/%s failed (the specification itself is inconsistent):\n%s" % (module, cfg, r.error or r.invariant_violated))
        for a in need_actions:
            if r.actions.get(a, (0, 0))[0] == 0:
                raise ToolError("vacuous model-checking run %s/%s: action %s never taken" % (module, cfg, a))
        self.mc.append({"module": module, "cfg": cfg, "states": r.distinct, "transitions": r.generated, "depth": r.depth,
                        "actions": {k: v[1] for k, v in r.actions.items()}, "wall_s": round(r.wall, 1)})
        log("[mc %s/%s] %d distinct, %d generated, %.1fs" % (module, cfg, r.distinct, r.generated, r.wall))
        return r

    def apalache(self, module, cinit, inv="Inv", length=1, timeout=600, expect_error=False):
        """symbolic check of spec/apalache/<module>.tla with Apalache (bounded by `length` steps from an arbitrary initial state)"""
        if self.collect:
            return None
        out = os.path.join(self.work, "apalache.%s.%s" % (module, cinit))
        t0 = time.time()
        try:
            p = subprocess.run(["apalache-mc", "check", "--cinit=" + cinit, "--init=Init", "--next=Step", "--inv=" + inv, "--length=%d" % length, "--out-dir=" + out,
                                module + ".tla"], cwd=os.path.join(SPEC, "apalache"), capture_output=True, text=True, timeout=timeout)
        except subprocess.TimeoutExpired:
            raise ToolError("Apalache timeout: %s %s" % (module, cinit))
        finally:
            shutil.rmtree(out, ignore_errors=True)
        ok = "The outcome is: NoError" in p.stdout
        err = "The outcome is: Error" in p.stdout
        if not ok and not err:
            raise ToolError("Apalache did not finish %s/%s:\n%s" % (module, cinit, (p.stdout + p.stderr)[-1500:]))
        if ok == expect_error:
            raise ToolError("Apalache %s/%s: expected %s, got %s (the specification itself is inconsistent)" % (module, cinit, "a counterexample" if expect_error else "no error", "no error" if ok else "a counterexample"))
        self.mc.append({"module": "apalache/" + module, "cfg": cinit, "states": 0, "transitions": 0, "depth": length, "symbolic": True,
                        "outcome": "NoError" if ok else "Error (expected)", "wall_s": round(time.time() - t0, 1)})
        log("[apalache %s/%s] %s, %.1fs" % (module, cinit, "no error" if ok else "counterexample (expected)", time.time() - t0))
        return ok

    def generate(self, module, cfg, timeout=900, xmx="8g", workers=1, extra=()):
        """behaviours printed by TLC as ["GEN", hist] lines"""
        r = run_tlc(module, cfg, os.path.join(self.work, "gen." + cfg), workers=workers, timeout=timeout, xmx=xmx, extra=extra)
        if r.error or r.invariant_violated:
            raise ToolError("behaviour generation %s/%s failed:\n%s" % (module, cfg, r.error or r.invariant_violated))
        hs = [v[1] for v in r.printed if isinstance(v, list) and v and v[0] == "GEN"]
        self.mc.append({"module": module, "cfg": cfg, "states": r.distinct, "transitions": r.generated, "depth": r.depth,
                        "behaviours": len(hs), "wall_s": round(r.wall, 1)})
        log("[gen %s/%s] %d behaviours, %d states, %.1fs" % (module, cfg, len(hs), r.distinct, r.wall))
        return hs

    # ---- conformance
    def conform(self, trace_module, histories, tag="rel", describe=None, label=None, shards=None, cost=cost_default, timeout=1500):
        """drive the histories through build `tag`, validate the observation traces with TLC."""
        if not histories:
            return {}
        binp = build(tag)
        if tag not in self.builds:
            self.builds.append(tag)
        label = label or ("%s.%s" % (trace_module, tag))
        recs = drive(binp, histories, os.path.join(self.work, label), tag=tag)
        if self.collect:
            self.workloads.append({"trace_module": trace_module, "histories": histories, "records": recs, "cost": cost, "label": label,
                                   "describe": describe, "tag": tag, "owner": self.pid})
            return {"records": recs, "verdicts": {r["id"]: ("DONE", len(r["ev"])) for r in recs}}
        return self.judge(trace_module, recs, tag, describe=describe, label=label, shards=shards, cost=cost, timeout=timeout)

    def judge(self, trace_module, recs, tag, describe=None, label=None, shards=None, cost=cost_default, timeout=1500):
        """validate recorded observation traces of build `tag` with TLC; rejected histories become violations"""
        label = label or ("%s.%s" % (trace_module, tag))
        verdicts, stats = validate(trace_module, recs, os.path.join(self.work, label), shards=shards, cost=cost, timeout=timeout, label=label)
        stats["build"] = tag
        self.last_extras = stats.pop("_extras", [])
        self.tv.append(stats)
        nbad = 0
        for r in recs:
            v = verdicts[r["id"]]
            if v[0] == "BAD":
                nbad += 1
                self.violations.append({"record": r, "position": v[1], "expected": v[2], "observed": v[3], "build": tag,
                                        "trace_module": trace_module, "desc": (describe(r, v) if describe else {})})
        log("[tv %s %s] %d histories, %d events, %d rejected, %.1fs" % (trace_module, tag, stats["histories"], stats["events"], nbad, stats["wall_s"]))
        return {"records": recs, "verdicts": verdicts}

    def model_eval(self, module, recs, label, cost=cost_default, timeout=1500):
        """evaluate a specification-internal relation (e.g. a transcription of the code's algorithm against the standard's definition) on the
        given inputs with TLC; a disagreement is an inconsistency of the specification (tool error), never a verdict on the crate.
        Returns the extra lines the module printed (e.g. coverage classes)."""
        verdicts, stats = validate(module, recs, os.path.join(self.work, label), cost=cost, timeout=timeout, label=label)
        extras = stats.pop("_extras", [])
        bad = [i for i, v in verdicts.items() if v[0] != "DONE"]
        if bad:
            raise ToolError("specification inconsistency: %s rejects %d of its own evaluations (first: %s)" % (module, len(bad), verdicts[bad[0]]))
        self.mc.append({"module": module, "cfg": "evaluation on %d inputs" % len(recs), "states": stats["states"], "transitions": stats["transitions"], "depth": 1,
                        "wall_s": stats["wall_s"]})
        log("[model-eval %s] %d inputs, %.1fs" % (module, len(recs), stats["wall_s"]))
        return extras

    def drive_on(self, histories, tag, label):
        """execute the histories on build `tag` without judging"""
        binp = build(tag)
        if tag not in self.builds:
            self.builds.append(tag)
        return drive(binp, histories, os.path.join(self.work, label), tag=tag)

    def equiv(self, recs_by_tag, label, describe=None, timeout=900):
        """K observation traces of the same script (dict build tag -> records, same order): the product trace
        specification TraceEquiv must accept them (all builds made the same observation at every event)."""
        tags = list(recs_by_tag)
        base = recs_by_tag[tags[0]]
        if not base:
            return
        merged = []
        for i, r in enumerate(base):
            m = {"id": r["id"], "tags": tags, "ev": []}
            for j, e in enumerate(r["ev"]):
                m["ev"].append({"op": e.get("op", ""), "outs": [recs_by_tag[t][i]["ev"][j]["out"] for t in tags]})
            merged.append(m)
        self.equiv_merged(merged, base, label, describe=describe, timeout=timeout)

    def equiv_merged(self, merged, base, label, describe=None, timeout=900):
        """merged: product records {id, tags, ev: [{op, outs: [out per copy]}]}; base: the record blamed in a replay file (same order)"""
        wd = os.path.join(self.work, label)
        verdicts, stats = validate("TraceEquiv", merged, wd, cost=lambda m: 1 + sum(len(e["outs"][0]["v"]) for e in m["ev"]) / 50.0, timeout=timeout, label=label)
        stats.pop("_extras", None)
        alltags = sorted({t for m in merged for t in m["tags"]})
        stats["build"] = "+".join(alltags) if len(alltags) <= 6 else "%d copies" % len(alltags)
        self.tv.append(stats)
        nbad = 0
        for i, r in enumerate(base):
            v = verdicts[r["id"]]
            if v[0] == "BAD":
                nbad += 1
                d = dict(describe(r, v) if describe else {})
                d["equiv"] = "%s/%s" % (v[2][0], v[3][0])
                self.violations.append({"record": r, "position": v[1], "expected": v[2], "observed": v[3], "build": v[3][0],
                                        "trace_module": "TraceEquiv", "desc": d, "builds": merged[i]["tags"]})
        log("[equiv %s %s] %d histories, %d events, %d rejected, %.1fs" % (label, stats["build"], stats["histories"], stats["events"], nbad, stats["wall_s"]))

    def sample(self, s):
        if len(self.samples) < 12:
            self.samples.append(s)

    def count(self, key, trivial=False):
        self.evaluations += 1
        (self.trivial_keys if trivial else self.distinct_keys).add(key)

    # ---- reporting
    def finish(self):
        known = []
        kf_path = os.path.join(ROOT, "known_findings.json")
        if os.path.exists(kf_path):
            known = [k for k in json.load(open(kf_path)) if k.get("property") == self.pid and k.get("status") == "known"]
        new = []
        hits = {}
        for v in self.violations:
            d = dict(v["desc"])
            d.setdefault("build", v["build"])
            m = None
            for k in known:
                if all(d.get(a) == b for a, b in k["match"].items()):
                    m = k
                    break
            if m:
                hits.setdefault(m["what"], 0)
                hits[m["what"]] += 1
            else:
                new.append(v)
        for what, n in hits.items():
            print("KNOWN-FINDING: property=%s %s (%d occurrence(s) in this run)" % (self.pid, what, n))
        rc = 0
        seen = set()
        os.makedirs(os.path.join(REPLAYS, self.pid), exist_ok=True)
        for v in new:
            rec = v["record"]
            blob = json.dumps({"property": self.pid, "build": v["build"], "builds": v.get("builds", [v["build"]]), "trace_module": v["trace_module"], "desc": v["desc"],
                               "position": v["position"], "expected": v["expected"], "observed": v["observed"],
                               "history": {k: (rec[k] if k != "ev" else [{a: b for a, b in e.items() if a != "out"} for e in rec["ev"]]) for k in rec},
                               "observed_trace": rec}, sort_keys=True)
            dg = hashlib.sha256(blob.encode()).hexdigest()[:16]
            path = os.path.join(REPLAYS, self.pid, dg + ".json")
            with open(path, "w") as f:
                f.write(blob)
            rc = 1
            key = json.dumps(v["desc"], sort_keys=True)
            if key in seen or len(seen) >= 20:
                continue
            seen.add(key)
            print("VIOLATION property=%s replay=%s" % (self.pid, path))
            e = rec["ev"][v["position"] - 1] if 0 < v["position"] <= len(rec["ev"]) else {}
            if "op" not in e and "fn" in e:
                e = dict(e, op="%s.%s" % (e["fn"], e.get("f", "")))
            log("  history %s (%s) event %d %s: expected %s observed %s" % (rec.get("id"), {k: rec[k] for k in rec if k not in ("ev", "id") and not isinstance(rec[k], list)},
                                                                           v["position"], e.get("op"), _short(v["expected"]), _short(v["observed"])))
        self.write_evidence(len(new), len(self.violations) - len(new))
        return rc

    def write_evidence(self, nviol, nknown):
        os.makedirs(EVID, exist_ok=True)
        states = sum(m["states"] for m in self.mc) + sum(t["states"] for t in self.tv)
        trans = sum(m["transitions"] for m in self.mc) + sum(t["transitions"] for t in self.tv)
        cov = {
            "states": states,
            "transitions": trans,
            "traces_validated_against_impl": sum(t["histories"] for t in self.tv),
            "events_validated": sum(t["events"] for t in self.tv),
            "samples": self.samples or ["(none)"],
            "evaluations": self.evaluations,
            "distinct_nontrivial": len(self.distinct_keys),
            "distinct_trivial": len(self.trivial_keys),
            "rule": self.rule,
            "model_checking_runs": self.mc,
            "trace_validation_runs": self.tv,
            "builds": self.builds,
            "known_finding_occurrences": nknown,
            "exhaustive": False,
        }
        cov.update(self.extra)
        ev = {"property_id": self.pid, "tier": self.tier, "seed": self.seed, "level": "model_checking", "coverage": cov,
              "assumptions": self.assumptions, "wall_s": round(time.time() - self.t0, 1), "violations": nviol, "notes": self.notes}
        with open(os.path.join(EVID, self.pid + ".json"), "w") as f:
            json.dump(ev, f, indent=1)


def collect_workload(R, modname, tier="quick"):
    """the workload of property `modname` (e.g. "c05"), built and executed on the primary build exactly as that
    property's own check does at `tier`, but not judged: list of {trace_module, histories, records, cost, label, ...}"""
    import importlib
    mod = importlib.import_module("props." + modname)
    sub = Run(modname.upper(), tier, R.seed, collect=True, work=os.path.join(R.work, "sub_" + modname))
    mod.run(sub)
    R.mc += sub.mc          # behaviour-generation runs made on the way
    for t in sub.builds:
        if t not in R.builds:
            R.builds.append(t)
    return sub.workloads


def _short(o):
    s = json.dumps(o)
    return s if len(s) < 200 else s[:200] + "..."
