// pctrace: observation instrument of property C19 (DESIGN.md section 5, C19).
// Runs argv[1..] under ptrace with address-space randomisation off; free-runs to the first marker (the 2nd
// getppid() system call: the first one is made by the victim before its set-up so that lazy binding of the
// marker itself is outside the window), then single-steps until the next getppid() and folds the sequence of
// instruction addresses into one FNV-1a digest per CH instructions.
// Output (stdout):   c <chunk index> <digest>   per chunk,   n <instruction count>   at the end.
// With PCDUMP=<first>:<last> (chunk indices) the addresses of those chunks are printed instead ("a <chunk> <hex>").
// Exit 0 on success, 2 on any tracing problem.
#define _GNU_SOURCE
#include <stdio.h>
#include <stdlib.h>
#include <string.h>
#include <errno.h>
#include <signal.h>
#include <sys/ptrace.h>
#include <sys/wait.h>
#include <sys/user.h>
#include <sys/personality.h>
#include <sys/syscall.h>
#include <unistd.h>
#define CH 4096
int main(int argc, char **argv) {
  long d0 = -1, d1 = -1;
  const char *dump = getenv("PCDUMP");
  if (dump && sscanf(dump, "%ld:%ld", &d0, &d1) != 2) { fprintf(stderr, "bad PCDUMP\n"); return 2; }
  if (argc < 2) { fprintf(stderr, "usage: pctrace <program> [args]\n"); return 2; }
  pid_t p = fork();
  if (p < 0) { perror("fork"); return 2; }
  if (p == 0) {
    personality(ADDR_NO_RANDOMIZE);
    if (ptrace(PTRACE_TRACEME, 0, 0, 0) < 0) _exit(126);
    execvp(argv[1], argv + 1);
    _exit(127);
  }
  int st;
  if (waitpid(p, &st, 0) < 0 || !WIFSTOPPED(st)) { fprintf(stderr, "pctrace: child did not stop (status %x)\n", st); return 2; }
  ptrace(PTRACE_SETOPTIONS, p, 0, PTRACE_O_TRACESYSGOOD | PTRACE_O_EXITKILL);
  int seen = 0;
  for (;;) {
    if (ptrace(PTRACE_SYSCALL, p, 0, 0) < 0) { perror("pctrace: PTRACE_SYSCALL"); return 2; }
    waitpid(p, &st, 0);
    if (WIFEXITED(st) || WIFSIGNALED(st)) { fprintf(stderr, "pctrace: victim ended before the window (status %x)\n", st); return 2; }
    if (WIFSTOPPED(st) && WSTOPSIG(st) == (SIGTRAP | 0x80)) {
      struct user_regs_struct r;
      ptrace(PTRACE_GETREGS, p, 0, &r);
      // entry and exit stops of the first getppid (seen 1, 2), entry and exit of the second (3, 4): window starts after 4
      if (r.orig_rax == SYS_getppid) { seen++; if (seen == 4) break; }
    }
  }
  unsigned long long h = 1469598103934665603ULL;
  long n = 0, chunk = 0;
  for (;;) {
    struct user_regs_struct r;
    if (ptrace(PTRACE_GETREGS, p, 0, &r) < 0) { perror("pctrace: GETREGS"); return 2; }
    errno = 0;
    long w = ptrace(PTRACE_PEEKTEXT, p, (void *)r.rip, 0);
    if (errno) { perror("pctrace: PEEKTEXT"); return 2; }
    if ((w & 0xffff) == 0x050f && r.rax == SYS_getppid) break;
    if (d0 >= 0 && chunk >= d0 && chunk <= d1) printf("a %ld %llx\n", chunk, (unsigned long long)r.rip);
    h = (h ^ r.rip) * 1099511628211ULL;
    n++;
    if (n % CH == 0) { if (d0 < 0) printf("c %ld %016llx\n", chunk, h); chunk++; h = 1469598103934665603ULL; }
    if (ptrace(PTRACE_SINGLESTEP, p, 0, 0) < 0) { perror("pctrace: SINGLESTEP"); return 2; }
    waitpid(p, &st, 0);
    if (WIFEXITED(st) || WIFSIGNALED(st)) { fprintf(stderr, "pctrace: victim ended inside the window (status %x)\n", st); return 2; }
    if (WIFSTOPPED(st) && WSTOPSIG(st) != SIGTRAP) { fprintf(stderr, "pctrace: victim received signal %d inside the window\n", WSTOPSIG(st)); return 2; }
  }
  if (d0 < 0) { printf("c %ld %016llx\n", chunk, h); printf("n %ld\n", n); }
  kill(p, SIGKILL);
  return 0;
}
