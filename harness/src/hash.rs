//! hashing::* contexts and one-shot functions (properties C01, C02, C16, C20)
use crate::*;
use cryptoxide::hashing;

pub trait HCtx {
    fn update(self: Box<Self>, d: &[u8]) -> Box<dyn HCtx>;
    fn update_mut(&mut self, d: &[u8]);
    fn finalize(self: Box<Self>) -> Vec<u8>;
    fn finalize_reset(&mut self) -> Vec<u8>;
    fn reset(&mut self);
    fn clone_box(&self) -> Box<dyn HCtx>;
    fn finalize_at(self: Box<Self>, _n: usize) -> Vec<u8> {
        panic!("harness: finalize_at unsupported")
    }
    fn finalize_reset_at(&mut self, _n: usize) -> Vec<u8> {
        panic!("harness: finalize_reset_at unsupported")
    }
    fn reset_with_key(&mut self, _k: &[u8]) {
        panic!("harness: reset_with_key unsupported")
    }
    fn finalize_reset_with_key(&mut self, _k: &[u8]) -> Vec<u8> {
        panic!("harness: finalize_reset_with_key unsupported")
    }
    fn finalize_reset_with_key_at(&mut self, _k: &[u8], _n: usize) -> Vec<u8> {
        panic!("harness: finalize_reset_with_key_at unsupported")
    }
    fn set_counter(&mut self, _t0: u64, _t1: u64) {
        panic!("harness: set_counter unsupported")
    }
    fn set_length(&mut self, _n: u128) {
        panic!("harness: set_length unsupported")
    }
}

macro_rules! plain_ctx {
    ($t:ty, md) => {
        plain_ctx!(@body $t, fn set_length(&mut self, n: u128) {
            self.verif_set_processed_bytes(n)
        });
    };
    ($t:ty) => {
        plain_ctx!(@body $t,);
    };
    (@body $t:ty, $($extra:tt)*) => {
        impl HCtx for $t {
            $($extra)*
            fn update(self: Box<Self>, d: &[u8]) -> Box<dyn HCtx> {
                Box::new((*self).update(d))
            }
            fn update_mut(&mut self, d: &[u8]) {
                <$t>::update_mut(self, d)
            }
            fn finalize(self: Box<Self>) -> Vec<u8> {
                (*self).finalize().to_vec()
            }
            fn finalize_reset(&mut self) -> Vec<u8> {
                <$t>::finalize_reset(self).to_vec()
            }
            fn reset(&mut self) {
                <$t>::reset(self)
            }
            fn clone_box(&self) -> Box<dyn HCtx> {
                Box::new(self.clone())
            }
        }
    };
}
plain_ctx!(hashing::sha1::Context, md);
plain_ctx!(hashing::ripemd160::Context, md);
plain_ctx!(hashing::sha2::Context224, md);
plain_ctx!(hashing::sha2::Context256, md);
plain_ctx!(hashing::sha2::Context384, md);
plain_ctx!(hashing::sha2::Context512, md);
plain_ctx!(hashing::sha2::Context512_224, md);
plain_ctx!(hashing::sha2::Context512_256, md);
plain_ctx!(hashing::sha3::Context224);
plain_ctx!(hashing::sha3::Context256);
plain_ctx!(hashing::sha3::Context384);
plain_ctx!(hashing::sha3::Context512);
plain_ctx!(hashing::keccak::Context224);
plain_ctx!(hashing::keccak::Context256);
plain_ctx!(hashing::keccak::Context384);
plain_ctx!(hashing::keccak::Context512);

// BLAKE2 with run-time output length
macro_rules! blake_dyn {
    ($t:ty, $w:ty) => {
        impl HCtx for $t {
            fn update(self: Box<Self>, d: &[u8]) -> Box<dyn HCtx> {
                Box::new((*self).update(d))
            }
            fn update_mut(&mut self, d: &[u8]) {
                <$t>::update_mut(self, d)
            }
            fn finalize(self: Box<Self>) -> Vec<u8> {
                let n = self.output_bits() / 8;
                HCtx::finalize_at(self, n)
            }
            fn finalize_reset(&mut self) -> Vec<u8> {
                let n = self.output_bits() / 8;
                HCtx::finalize_reset_at(self, n)
            }
            fn finalize_at(self: Box<Self>, n: usize) -> Vec<u8> {
                let mut out = vec![0xa5u8; n];
                (*self).finalize_at(&mut out);
                out
            }
            fn finalize_reset_at(&mut self, n: usize) -> Vec<u8> {
                let mut out = vec![0xa5u8; n];
                <$t>::finalize_reset_at(self, &mut out);
                out
            }
            fn reset(&mut self) {
                <$t>::reset(self)
            }
            fn reset_with_key(&mut self, k: &[u8]) {
                <$t>::reset_with_key(self, k)
            }
            fn finalize_reset_with_key(&mut self, k: &[u8]) -> Vec<u8> {
                let n = self.output_bits() / 8;
                HCtx::finalize_reset_with_key_at(self, k, n)
            }
            fn finalize_reset_with_key_at(&mut self, k: &[u8], n: usize) -> Vec<u8> {
                let mut out = vec![0xa5u8; n];
                <$t>::finalize_reset_with_key_at(self, k, &mut out);
                out
            }
            fn clone_box(&self) -> Box<dyn HCtx> {
                Box::new(self.clone())
            }
            fn set_counter(&mut self, t0: u64, t1: u64) {
                self.verif_set_counter(t0 as $w, t1 as $w)
            }
        }
    };
}
blake_dyn!(hashing::blake2b::ContextDyn, u64);
blake_dyn!(hashing::blake2s::ContextDyn, u32);

// BLAKE2 with compile-time output length; `ARR` = the array-returning finalize family exists
struct BConst<const BITS: usize, const ARR: bool>(hashing::blake2b::Context<BITS>);
struct SConst<const BITS: usize, const ARR: bool>(hashing::blake2s::Context<BITS>);
macro_rules! blake_const_common {
    ($w:ty) => {
        fn update(self: Box<Self>, d: &[u8]) -> Box<dyn HCtx> {
            Box::new(Self(self.0.update(d)))
        }
        fn update_mut(&mut self, d: &[u8]) {
            self.0.update_mut(d)
        }
        fn finalize_at(self: Box<Self>, n: usize) -> Vec<u8> {
            let mut out = vec![0xa5u8; n];
            self.0.finalize_at(&mut out);
            out
        }
        fn finalize_reset_at(&mut self, n: usize) -> Vec<u8> {
            let mut out = vec![0xa5u8; n];
            self.0.finalize_reset_at(&mut out);
            out
        }
        fn reset(&mut self) {
            self.0.reset()
        }
        fn reset_with_key(&mut self, k: &[u8]) {
            self.0.reset_with_key(k)
        }
        fn finalize_reset_with_key_at(&mut self, k: &[u8], n: usize) -> Vec<u8> {
            let mut out = vec![0xa5u8; n];
            self.0.finalize_reset_with_key_at(k, &mut out);
            out
        }
        fn clone_box(&self) -> Box<dyn HCtx> {
            Box::new(Self(self.0.clone()))
        }
        fn set_counter(&mut self, t0: u64, t1: u64) {
            self.0.verif_set_counter(t0 as $w, t1 as $w)
        }
    };
}
macro_rules! blake_const_generic {
    ($s:ident, $w:ty) => {
        impl<const BITS: usize> HCtx for $s<BITS, false> {
            blake_const_common!($w);
            fn finalize(self: Box<Self>) -> Vec<u8> {
                self.finalize_at((BITS + 7) / 8)
            }
            fn finalize_reset(&mut self) -> Vec<u8> {
                self.finalize_reset_at((BITS + 7) / 8)
            }
            fn finalize_reset_with_key(&mut self, k: &[u8]) -> Vec<u8> {
                self.finalize_reset_with_key_at(k, (BITS + 7) / 8)
            }
        }
    };
}
macro_rules! blake_const_arr {
    ($s:ident, $w:ty, $bits:literal) => {
        impl HCtx for $s<$bits, true> {
            blake_const_common!($w);
            fn finalize(self: Box<Self>) -> Vec<u8> {
                self.0.finalize().to_vec()
            }
            fn finalize_reset(&mut self) -> Vec<u8> {
                self.0.finalize_reset().to_vec()
            }
            fn finalize_reset_with_key(&mut self, k: &[u8]) -> Vec<u8> {
                self.0.finalize_reset_with_key(k).to_vec()
            }
        }
    };
}
blake_const_generic!(BConst, u64);
blake_const_generic!(SConst, u32);
blake_const_arr!(BConst, u64, 224);
blake_const_arr!(BConst, u64, 256);
blake_const_arr!(BConst, u64, 384);
blake_const_arr!(BConst, u64, 512);
blake_const_arr!(SConst, u32, 224);
blake_const_arr!(SConst, u32, 256);

fn new_bconst(bits: usize, key: &[u8], keyed: bool, marker: bool) -> Box<dyn HCtx> {
    use hashing::blake2b::{Blake2b, Context};
    macro_rules! mk {
        ($b:literal) => {
            Box::new(BConst::<$b, false>(match (marker, keyed) {
                (false, true) => Context::<$b>::new_keyed(key),
                (false, false) => Context::<$b>::new(),
                (true, true) => Blake2b::<$b>::new_keyed(key),
                (true, false) => Blake2b::<$b>::new(),
            }))
        };
    }
    macro_rules! mka {
        ($b:literal) => {
            Box::new(BConst::<$b, true>(match (marker, keyed) {
                (false, true) => Context::<$b>::new_keyed(key),
                (false, false) => Context::<$b>::new(),
                (true, true) => Blake2b::<$b>::new_keyed(key),
                (true, false) => Blake2b::<$b>::new(),
            }))
        };
    }
    match bits {
        224 => return mka!(224),
        256 => return mka!(256),
        384 => return mka!(384),
        512 => return mka!(512),
        0 => return mk!(0),
        1 => return mk!(1),
        7 => return mk!(7),
        9 => return mk!(9),
        250 => return mk!(250),
        505 => return mk!(505),
        511 => return mk!(511),
        513 => return mk!(513),
        520 => return mk!(520),
        _ => {}
    }
    if bits % 8 != 0 {
        panic!("harness: blake2b const bits {} not instantiated", bits);
    }
    match bits / 8 {
            1 => mk!(8),
            2 => mk!(16),
            3 => mk!(24),
            4 => mk!(32),
            5 => mk!(40),
            6 => mk!(48),
            7 => mk!(56),
            8 => mk!(64),
            9 => mk!(72),
            10 => mk!(80),
            11 => mk!(88),
            12 => mk!(96),
            13 => mk!(104),
            14 => mk!(112),
            15 => mk!(120),
            16 => mk!(128),
            17 => mk!(136),
            18 => mk!(144),
            19 => mk!(152),
            20 => mk!(160),
            21 => mk!(168),
            22 => mk!(176),
            23 => mk!(184),
            24 => mk!(192),
            25 => mk!(200),
            26 => mk!(208),
            27 => mk!(216),
            28 => mk!(224),
            29 => mk!(232),
            30 => mk!(240),
            31 => mk!(248),
            32 => mk!(256),
            33 => mk!(264),
            34 => mk!(272),
            35 => mk!(280),
            36 => mk!(288),
            37 => mk!(296),
            38 => mk!(304),
            39 => mk!(312),
            40 => mk!(320),
            41 => mk!(328),
            42 => mk!(336),
            43 => mk!(344),
            44 => mk!(352),
            45 => mk!(360),
            46 => mk!(368),
            47 => mk!(376),
            48 => mk!(384),
            49 => mk!(392),
            50 => mk!(400),
            51 => mk!(408),
            52 => mk!(416),
            53 => mk!(424),
            54 => mk!(432),
            55 => mk!(440),
            56 => mk!(448),
            57 => mk!(456),
            58 => mk!(464),
            59 => mk!(472),
            60 => mk!(480),
            61 => mk!(488),
            62 => mk!(496),
            63 => mk!(504),
            64 => mk!(512),
        _ => panic!("harness: blake2b const bits {} not instantiated", bits),
    }
}
fn new_sconst(bits: usize, key: &[u8], keyed: bool, marker: bool) -> Box<dyn HCtx> {
    use hashing::blake2s::{Blake2s, Context};
    macro_rules! mk {
        ($b:literal) => {
            Box::new(SConst::<$b, false>(match (marker, keyed) {
                (false, true) => Context::<$b>::new_keyed(key),
                (false, false) => Context::<$b>::new(),
                (true, true) => Blake2s::<$b>::new_keyed(key),
                (true, false) => Blake2s::<$b>::new(),
            }))
        };
    }
    macro_rules! mka {
        ($b:literal) => {
            Box::new(SConst::<$b, true>(match (marker, keyed) {
                (false, true) => Context::<$b>::new_keyed(key),
                (false, false) => Context::<$b>::new(),
                (true, true) => Blake2s::<$b>::new_keyed(key),
                (true, false) => Blake2s::<$b>::new(),
            }))
        };
    }
    match bits {
        224 => return mka!(224),
        256 => return mka!(256),
        0 => return mk!(0),
        1 => return mk!(1),
        7 => return mk!(7),
        9 => return mk!(9),
        250 => return mk!(250),
        255 => return mk!(255),
        257 => return mk!(257),
        264 => return mk!(264),
        _ => {}
    }
    if bits % 8 != 0 {
        panic!("harness: blake2s const bits {} not instantiated", bits);
    }
    match bits / 8 {
            1 => mk!(8),
            2 => mk!(16),
            3 => mk!(24),
            4 => mk!(32),
            5 => mk!(40),
            6 => mk!(48),
            7 => mk!(56),
            8 => mk!(64),
            9 => mk!(72),
            10 => mk!(80),
            11 => mk!(88),
            12 => mk!(96),
            13 => mk!(104),
            14 => mk!(112),
            15 => mk!(120),
            16 => mk!(128),
            17 => mk!(136),
            18 => mk!(144),
            19 => mk!(152),
            20 => mk!(160),
            21 => mk!(168),
            22 => mk!(176),
            23 => mk!(184),
            24 => mk!(192),
            25 => mk!(200),
            26 => mk!(208),
            27 => mk!(216),
            28 => mk!(224),
            29 => mk!(232),
            30 => mk!(240),
            31 => mk!(248),
            32 => mk!(256),
        _ => panic!("harness: blake2s const bits {} not instantiated", bits),
    }
}

/// A context stored behind a prefix of K machine words inside a `repr(C)` wrapper (history field "place": K).
/// Where the context lands depends only on the alignment its own type declares: the AVX BLAKE2 code loads the
/// chaining value with aligned loads and relies on `repr(align(32))` of the engine (C16).
#[repr(C)]
struct Wrap<T, const K: usize> {
    pre: [u64; K],
    inner: T,
}
macro_rules! wrap_impl {
    ($t:ty, $w:ty) => {
        impl<const K: usize> HCtx for Wrap<$t, K> {
            fn update(mut self: Box<Self>, d: &[u8]) -> Box<dyn HCtx> {
                self.inner.update_mut(d);
                self
            }
            fn update_mut(&mut self, d: &[u8]) {
                self.inner.update_mut(d)
            }
            fn finalize(mut self: Box<Self>) -> Vec<u8> {
                HCtx::finalize_reset(&mut *self)
            }
            fn finalize_reset(&mut self) -> Vec<u8> {
                let n = self.inner.output_bits() / 8;
                HCtx::finalize_reset_at(self, n)
            }
            fn finalize_at(mut self: Box<Self>, n: usize) -> Vec<u8> {
                HCtx::finalize_reset_at(&mut *self, n)
            }
            fn finalize_reset_at(&mut self, n: usize) -> Vec<u8> {
                let mut out = vec![0xa5u8; n];
                self.inner.finalize_reset_at(&mut out);
                out
            }
            fn reset(&mut self) {
                self.inner.reset()
            }
            fn reset_with_key(&mut self, k: &[u8]) {
                self.inner.reset_with_key(k)
            }
            fn finalize_reset_with_key(&mut self, k: &[u8]) -> Vec<u8> {
                let n = self.inner.output_bits() / 8;
                HCtx::finalize_reset_with_key_at(self, k, n)
            }
            fn finalize_reset_with_key_at(&mut self, k: &[u8], n: usize) -> Vec<u8> {
                let mut out = vec![0xa5u8; n];
                self.inner.finalize_reset_with_key_at(k, &mut out);
                out
            }
            fn clone_box(&self) -> Box<dyn HCtx> {
                Box::new(Wrap::<$t, K> { pre: self.pre, inner: self.inner.clone() })
            }
            fn set_counter(&mut self, t0: u64, t1: u64) {
                self.inner.verif_set_counter(t0 as $w, t1 as $w)
            }
        }
    };
}
wrap_impl!(hashing::blake2b::ContextDyn, u64);
wrap_impl!(hashing::blake2s::ContextDyn, u32);
fn place<T: 'static>(c: T, k: usize) -> Box<dyn HCtx>
where
    T: HCtx,
    Wrap<T, 1>: HCtx,
    Wrap<T, 3>: HCtx,
{
    match k {
        0 => Box::new(c),
        1 => Box::new(Wrap::<T, 1> { pre: [0x5a5a; 1], inner: c }),
        3 => Box::new(Wrap::<T, 3> { pre: [0x5a5a; 3], inner: c }),
        _ => panic!("harness: placement {} not instantiated", k),
    }
}

/// construct a context; `h` holds alg, and for BLAKE2: api ("dyn"|"const"), outlen (bytes) or bits, key, keyed
pub fn new_ctx(h: &Ev) -> Box<dyn HCtx> {
    let alg = get_str(h, "alg");
    // ctor = "marker" (default for the fixed hashes): through the algorithm marker type; "ctx": the context's own constructor
    let ctor = h.get("ctor").and_then(|v| v.as_str()).unwrap_or("");
    let marker = ctor == "marker";
    if ctor == "ctx" {
        match alg {
            "sha1" => return Box::new(hashing::sha1::Context::new()),
            "ripemd160" => return Box::new(hashing::ripemd160::Context::new()),
            "sha224" => return Box::new(hashing::sha2::Context224::new()),
            "sha256" => return Box::new(hashing::sha2::Context256::new()),
            "sha384" => return Box::new(hashing::sha2::Context384::new()),
            "sha512" => return Box::new(hashing::sha2::Context512::new()),
            "sha512_224" => return Box::new(hashing::sha2::Context512_224::new()),
            "sha512_256" => return Box::new(hashing::sha2::Context512_256::new()),
            "sha3_224" => return Box::new(hashing::sha3::Context224::new()),
            "sha3_256" => return Box::new(hashing::sha3::Context256::new()),
            "sha3_384" => return Box::new(hashing::sha3::Context384::new()),
            "sha3_512" => return Box::new(hashing::sha3::Context512::new()),
            "keccak224" => return Box::new(hashing::keccak::Context224::new()),
            "keccak256" => return Box::new(hashing::keccak::Context256::new()),
            "keccak384" => return Box::new(hashing::keccak::Context384::new()),
            "keccak512" => return Box::new(hashing::keccak::Context512::new()),
            _ => {}
        }
    }
    match alg {
        "sha1" => Box::new(hashing::sha1::Sha1::new()),
        "ripemd160" => Box::new(hashing::ripemd160::Ripemd160::new()),
        "sha224" => Box::new(hashing::sha2::Sha224::new()),
        "sha256" => Box::new(hashing::sha2::Sha256::new()),
        "sha384" => Box::new(hashing::sha2::Sha384::new()),
        "sha512" => Box::new(hashing::sha2::Sha512::new()),
        "sha512_224" => Box::new(hashing::sha2::Sha512Trunc224::new()),
        "sha512_256" => Box::new(hashing::sha2::Sha512Trunc256::new()),
        "sha3_224" => Box::new(hashing::sha3::Sha3_224::new()),
        "sha3_256" => Box::new(hashing::sha3::Sha3_256::new()),
        "sha3_384" => Box::new(hashing::sha3::Sha3_384::new()),
        "sha3_512" => Box::new(hashing::sha3::Sha3_512::new()),
        "keccak224" => Box::new(hashing::keccak::Keccak224::new()),
        "keccak256" => Box::new(hashing::keccak::Keccak256::new()),
        "keccak384" => Box::new(hashing::keccak::Keccak384::new()),
        "keccak512" => Box::new(hashing::keccak::Keccak512::new()),
        "blake2b" | "blake2s" => {
            let key = get_bytes(h, "key");
            // keyed = use the new_keyed constructor (also with an empty key when asked explicitly)
            let keyed = h.get("keyed").and_then(|v| v.as_bool()).unwrap_or(!key.is_empty());
            let api = h.get("api").and_then(|v| v.as_str()).unwrap_or("dyn");
            match (alg, api) {
                ("blake2b", "dyn") => {
                    let n = get_usize(h, "outlen");
                    let pl = get_usize_or(h, "place", 0);
                    if keyed {
                        place(hashing::blake2b::ContextDyn::new_keyed(n, &key), pl)
                    } else {
                        place(hashing::blake2b::ContextDyn::new(n), pl)
                    }
                }
                ("blake2s", "dyn") => {
                    let n = get_usize(h, "outlen");
                    let pl = get_usize_or(h, "place", 0);
                    if keyed {
                        place(hashing::blake2s::ContextDyn::new_keyed(n, &key), pl)
                    } else {
                        place(hashing::blake2s::ContextDyn::new(n), pl)
                    }
                }
                ("blake2b", "const") => new_bconst(get_usize_or(h, "bits", 8 * get_usize_or(h, "outlen", 0)), &key, keyed, marker),
                ("blake2s", "const") => new_sconst(get_usize_or(h, "bits", 8 * get_usize_or(h, "outlen", 0)), &key, keyed, marker),
                _ => panic!("harness: unknown blake2 api {}", api),
            }
        }
        _ => panic!("harness: unknown hash alg {}", alg),
    }
}

/// the one-shot functions of `cryptoxide::hashing`
fn oneshot(h: &Ev, d: &[u8]) -> Vec<u8> {
    let alg = get_str(h, "alg");
    match alg {
        "sha1" => hashing::sha1(d).to_vec(),
        "ripemd160" => hashing::ripemd160(d).to_vec(),
        "sha224" => hashing::sha224(d).to_vec(),
        "sha256" => hashing::sha256(d).to_vec(),
        "sha384" => hashing::sha384(d).to_vec(),
        "sha512" => hashing::sha512(d).to_vec(),
        // no one-shot function exists for the truncated SHA-512 variants: algorithm object + context
        "sha512_224" => hashing::sha2::Sha512Trunc224::new().update(d).finalize().to_vec(),
        "sha512_256" => hashing::sha2::Sha512Trunc256::new().update(d).finalize().to_vec(),
        "sha3_224" => hashing::sha3_224(d).to_vec(),
        "sha3_256" => hashing::sha3_256(d).to_vec(),
        "sha3_384" => hashing::sha3_384(d).to_vec(),
        "sha3_512" => hashing::sha3_512(d).to_vec(),
        "keccak224" => hashing::keccak224(d).to_vec(),
        "keccak256" => hashing::keccak256(d).to_vec(),
        "keccak384" => hashing::keccak384(d).to_vec(),
        "keccak512" => hashing::keccak512(d).to_vec(),
        "blake2b" | "blake2s" => {
            let key = get_bytes(h, "key");
            let n = get_usize_or(h, "outlen", (get_usize_or(h, "bits", 0) + 7) / 8);
            match (alg, n, key.is_empty()) {
                ("blake2b", 28, true) => hashing::blake2b_224(d).to_vec(),
                ("blake2b", 32, true) => hashing::blake2b_256(d).to_vec(),
                ("blake2b", 48, true) => hashing::blake2b_384(d).to_vec(),
                ("blake2b", 64, true) => hashing::blake2b_512(d).to_vec(),
                ("blake2s", 28, true) => hashing::blake2s_224(d).to_vec(),
                ("blake2s", 32, true) => hashing::blake2s_256(d).to_vec(),
                ("blake2b", _, _) => {
                    let mut out = vec![0xa5u8; n];
                    cryptoxide::blake2b::Blake2b::blake2b(&mut out, d, &key);
                    out
                }
                _ => {
                    let mut out = vec![0xa5u8; n];
                    cryptoxide::blake2s::Blake2s::blake2s(&mut out, d, &key);
                    out
                }
            }
        }
        _ => panic!("harness: unknown hash alg {}", alg),
    }
}

pub fn run(h: &Ev, evs: &mut Vec<Value>) {
    const NSLOT: usize = 4;
    let mut slots: Vec<Option<Box<dyn HCtx>>> = (0..NSLOT).map(|_| None).collect();
    // construction is itself an observable step (it may refuse its parameters)
    let mut construct_failed = false;
    if h.get("noctx").is_none() {
        match catch_unwind(AssertUnwindSafe(|| new_ctx(h))) {
            Ok(c) => slots[0] = Some(c),
            Err(e) => {
                if let Some(s) = e.downcast_ref::<String>() {
                    if s.starts_with("harness:") {
                        for e in evs.iter_mut() {
                            set_out(e, Out::Bad(s.clone()));
                        }
                        return;
                    }
                }
                construct_failed = true;
            }
        }
    }
    for ev in evs.iter_mut() {
        let e = ev.as_object().unwrap().clone();
        let op = get_str(&e, "op").to_string();
        let x = get_usize_or(&e, "x", 1) - 1;
        let o = guarded(|| match op.as_str() {
            "new" => {
                if construct_failed {
                    Out::Panic
                } else {
                    Out::None
                }
            }
            "oneshot" => Out::Val(oneshot(h, get_placed(&e, "data", "off").get())),
            "update" => {
                let c = slots[x].take().expect("harness: dead slot");
                slots[x] = Some(c.update(get_placed(&e, "data", "off").get()));
                Out::None
            }
            "update_mut" => {
                slots[x].as_mut().expect("harness: dead slot").update_mut(get_placed(&e, "data", "off").get());
                Out::None
            }
            "clone" => {
                let y = get_usize(&e, "y") - 1;
                let c = slots[x].as_ref().expect("harness: dead slot").clone_box();
                slots[y] = Some(c);
                Out::None
            }
            "reset" => {
                slots[x].as_mut().expect("harness: dead slot").reset();
                Out::None
            }
            "reset_with_key" => {
                slots[x].as_mut().expect("harness: dead slot").reset_with_key(&get_bytes(&e, "key"));
                Out::None
            }
            "finalize" => Out::Val(slots[x].take().expect("harness: dead slot").finalize()),
            "finalize_at" => Out::Val(slots[x].take().expect("harness: dead slot").finalize_at(get_usize(&e, "n"))),
            "finalize_reset" => Out::Val(slots[x].as_mut().expect("harness: dead slot").finalize_reset()),
            "finalize_reset_at" => Out::Val(slots[x].as_mut().expect("harness: dead slot").finalize_reset_at(get_usize(&e, "n"))),
            "finalize_reset_with_key" => {
                Out::Val(slots[x].as_mut().expect("harness: dead slot").finalize_reset_with_key(&get_bytes(&e, "key")))
            }
            "finalize_reset_with_key_at" => Out::Val(
                slots[x].as_mut().expect("harness: dead slot").finalize_reset_with_key_at(&get_bytes(&e, "key"), get_usize(&e, "n")),
            ),
            "set_length" => {
                let off = get_bytes(&e, "off");
                let mut b = [0u8; 16];
                b.copy_from_slice(&off);
                slots[x].as_mut().expect("harness: dead slot").set_length(u128::from_le_bytes(b));
                Out::None
            }
            "set_counter" => {
                slots[x].as_mut().expect("harness: dead slot").set_counter(get_limbs_u64(&e, "t0"), get_limbs_u64(&e, "t1"));
                Out::None
            }
            _ => Out::Bad(format!("harness: unknown hash op {}", op)),
        });
        set_out(ev, o);
    }
}
