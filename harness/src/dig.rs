//! legacy `Digest` objects (src/{sha1,sha2,sha3,ripemd160,blake2b,blake2s}.rs), by name
use crate::*;
use cryptoxide::digest::Digest;

pub trait DigestC: Digest {
    fn clone_box(&self) -> Box<dyn DigestC>;
}
impl<T: Digest + Clone + 'static> DigestC for T {
    fn clone_box(&self) -> Box<dyn DigestC> {
        Box::new(self.clone())
    }
}
/// local newtype so that generic code (`Hmac<D>`, `hkdf_*`) can be instantiated with a digest chosen at run time;
/// pure forwarding
pub struct DynDigest(pub Box<dyn DigestC>);
impl Digest for DynDigest {
    fn input(&mut self, input: &[u8]) {
        self.0.input(input)
    }
    fn result(&mut self, out: &mut [u8]) {
        self.0.result(out)
    }
    fn reset(&mut self) {
        self.0.reset()
    }
    fn output_bits(&self) -> usize {
        self.0.output_bits()
    }
    fn output_bytes(&self) -> usize {
        self.0.output_bytes()
    }
    fn block_size(&self) -> usize {
        self.0.block_size()
    }
}
impl Clone for DynDigest {
    fn clone(&self) -> Self {
        DynDigest(self.0.clone_box())
    }
}

/// h: alg, and for BLAKE2: outlen, key (keyed constructor iff "keyed" or key non-empty)
pub fn new_digest(h: &Ev) -> DynDigest {
    let alg = get_str(h, "alg");
    let b: Box<dyn DigestC> = match alg {
        "sha1" => Box::new(cryptoxide::sha1::Sha1::new()),
        "ripemd160" => Box::new(cryptoxide::ripemd160::Ripemd160::new()),
        "sha224" => Box::new(cryptoxide::sha2::Sha224::new()),
        "sha256" => Box::new(cryptoxide::sha2::Sha256::new()),
        "sha384" => Box::new(cryptoxide::sha2::Sha384::new()),
        "sha512" => Box::new(cryptoxide::sha2::Sha512::new()),
        "sha512_224" => Box::new(cryptoxide::sha2::Sha512Trunc224::new()),
        "sha512_256" => Box::new(cryptoxide::sha2::Sha512Trunc256::new()),
        "sha3_224" => Box::new(cryptoxide::sha3::Sha3_224::new()),
        "sha3_256" => Box::new(cryptoxide::sha3::Sha3_256::new()),
        "sha3_384" => Box::new(cryptoxide::sha3::Sha3_384::new()),
        "sha3_512" => Box::new(cryptoxide::sha3::Sha3_512::new()),
        "keccak224" => Box::new(cryptoxide::sha3::Keccak224::new()),
        "keccak256" => Box::new(cryptoxide::sha3::Keccak256::new()),
        "keccak384" => Box::new(cryptoxide::sha3::Keccak384::new()),
        "keccak512" => Box::new(cryptoxide::sha3::Keccak512::new()),
        "blake2b" | "blake2s" => {
            let key = get_bytes(h, "key");
            let keyed = h.get("keyed").and_then(|v| v.as_bool()).unwrap_or(!key.is_empty());
            let n = get_usize(h, "outlen");
            match (alg, keyed) {
                ("blake2b", true) => Box::new(cryptoxide::blake2b::Blake2b::new_keyed(n, &key)),
                ("blake2b", false) => Box::new(cryptoxide::blake2b::Blake2b::new(n)),
                ("blake2s", true) => Box::new(cryptoxide::blake2s::Blake2s::new_keyed(n, &key)),
                _ => Box::new(cryptoxide::blake2s::Blake2s::new(n)),
            }
        }
        _ => panic!("harness: unknown digest {}", alg),
    };
    DynDigest(b)
}

/// class "digest": history of a legacy Digest object
pub fn run(h: &Ev, evs: &mut Vec<Value>) {
    const NSLOT: usize = 4;
    let mut slots: Vec<Option<DynDigest>> = (0..NSLOT).map(|_| None).collect();
    let mut construct_failed = false;
    match catch_unwind(AssertUnwindSafe(|| new_digest(h))) {
        Ok(c) => slots[0] = Some(c),
        Err(e) => {
            if let Some(s) = e.downcast_ref::<String>() {
                if s.starts_with("harness:") {
                    for e in evs.iter_mut() {
                        set_out(e, Out::Bad(s.clone()));
                    }
                    return;
                }
            }
            construct_failed = true;
        }
    }
    for ev in evs.iter_mut() {
        let e = ev.as_object().unwrap().clone();
        let op = get_str(&e, "op").to_string();
        let x = get_usize_or(&e, "x", 1) - 1;
        let o = guarded(|| {
            if op == "new" {
                return if construct_failed { Out::Panic } else { Out::None };
            }
            if op == "clone" {
                let y = get_usize(&e, "y") - 1;
                let c = slots[x].as_ref().expect("harness: dead slot").clone();
                slots[y] = Some(c);
                return Out::None;
            }
            let d = slots[x].as_mut().expect("harness: dead slot");
            match op.as_str() {
                "input" => {
                    d.input(&get_bytes(&e, "data"));
                    Out::None
                }
                "input_str" => {
                    d.input_str(std::str::from_utf8(&get_bytes(&e, "data")).expect("harness: utf8"));
                    Out::None
                }
                "result" => {
                    let n = get_usize_or(&e, "n", d.output_bytes());
                    let mut out = vec![0xa5u8; n];
                    d.result(&mut out);
                    Out::Val(out)
                }
                "result_str" => Out::Val(d.result_str().into_bytes()),
                "reset" => {
                    d.reset();
                    Out::None
                }
                "output_bits" => Out::Val(vec![(d.output_bits() / 256) as u8, (d.output_bits() % 256) as u8]),
                "output_bytes" => Out::Val(vec![d.output_bytes() as u8]),
                "block_size" => Out::Val(vec![d.block_size() as u8]),
                _ => Out::Bad(format!("harness: unknown digest op {}", op)),
            }
        });
        set_out(ev, o);
    }
}
