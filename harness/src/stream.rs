//! stream ciphers and the deterministic random generator (properties C03, C04, C16, C20)
use crate::*;
use cryptoxide::chacha::{VerifEngine, VerifPortableEngine};
use cryptoxide::chacha20::{ChaCha, ChaChaOriginal, XChaCha};
use cryptoxide::drg::chacha::Drg;
use cryptoxide::salsa20::{Salsa, XSalsa};

pub trait Stream {
    fn process(&mut self, input: &[u8], output: &mut [u8]);
    fn process_mut(&mut self, data: &mut [u8]);
    fn seek(&mut self, _block: u32) {
        panic!("harness: seek unsupported")
    }
    fn set_counter(&mut self, _block: u64) {
        panic!("harness: set_counter unsupported")
    }
    fn clone_box(&self) -> Box<dyn Stream>;
}
macro_rules! stream_impl {
    ($t:ident, seek) => {
        impl<const R: usize> Stream for $t<R> {
            fn process(&mut self, i: &[u8], o: &mut [u8]) {
                $t::<R>::process(self, i, o)
            }
            fn process_mut(&mut self, d: &mut [u8]) {
                $t::<R>::process_mut(self, d)
            }
            fn seek(&mut self, b: u32) {
                $t::<R>::seek(self, b)
            }
            fn clone_box(&self) -> Box<dyn Stream> {
                Box::new(self.clone())
            }
        }
    };
    ($t:ident, ctr) => {
        impl<const R: usize> Stream for $t<R> {
            fn process(&mut self, i: &[u8], o: &mut [u8]) {
                $t::<R>::process(self, i, o)
            }
            fn process_mut(&mut self, d: &mut [u8]) {
                $t::<R>::process_mut(self, d)
            }
            fn set_counter(&mut self, b: u64) {
                self.verif_set_block_counter(b)
            }
            fn clone_box(&self) -> Box<dyn Stream> {
                Box::new(self.clone())
            }
        }
    };
}
stream_impl!(ChaCha, seek);
stream_impl!(XChaCha, seek);
stream_impl!(ChaChaOriginal, ctr);
stream_impl!(Salsa, ctr);
stream_impl!(XSalsa, ctr);

macro_rules! by_rounds {
    ($r:expr, $mk:ident) => {
        match $r {
            8 => $mk!(8),
            12 => $mk!(12),
            20 => $mk!(20),
            // refused round counts, to observe the refusal
            0 => $mk!(0),
            7 => $mk!(7),
            10 => $mk!(10),
            21 => $mk!(21),
            r => panic!("harness: round count {} not instantiated", r),
        }
    };
}
fn arr<const N: usize>(v: &[u8]) -> [u8; N] {
    v.try_into().unwrap_or_else(|_| panic!("harness: expected {} bytes, got {}", N, v.len()))
}

pub fn new_stream(h: &Ev) -> Box<dyn Stream> {
    let key = get_bytes(h, "key");
    let nonce = get_bytes(h, "nonce");
    let rounds = get_usize(h, "rounds");
    match get_str(h, "variant") {
        "ietf" => {
            let n: [u8; 12] = arr(&nonce);
            macro_rules! mk {
                ($r:literal) => {
                    Box::new(ChaCha::<$r>::new(&key, &n)) as Box<dyn Stream>
                };
            }
            by_rounds!(rounds, mk)
        }
        "xchacha" => {
            let n: [u8; 24] = arr(&nonce);
            let k: [u8; 32] = arr(&key);
            macro_rules! mk {
                ($r:literal) => {
                    Box::new(XChaCha::<$r>::new(&k, &n)) as Box<dyn Stream>
                };
            }
            by_rounds!(rounds, mk)
        }
        "original" => {
            let n: [u8; 8] = arr(&nonce);
            macro_rules! mk {
                ($r:literal) => {
                    Box::new(ChaChaOriginal::<$r>::new(&key, &n)) as Box<dyn Stream>
                };
            }
            by_rounds!(rounds, mk)
        }
        "salsa" => {
            let n: [u8; 8] = arr(&nonce);
            macro_rules! mk {
                ($r:literal) => {
                    Box::new(Salsa::<$r>::new(&key, &n)) as Box<dyn Stream>
                };
            }
            by_rounds!(rounds, mk)
        }
        "xsalsa" => {
            let n: [u8; 24] = arr(&nonce);
            let k: [u8; 32] = arr(&key);
            macro_rules! mk {
                ($r:literal) => {
                    Box::new(XSalsa::<$r>::new(&k, &n)) as Box<dyn Stream>
                };
            }
            by_rounds!(rounds, mk)
        }
        v => panic!("harness: unknown stream variant {}", v),
    }
}

/// class "stream"
pub fn run(h: &Ev, evs: &mut Vec<Value>) {
    const NSLOT: usize = 4;
    let mut slots: Vec<Option<Box<dyn Stream>>> = (0..NSLOT).map(|_| None).collect();
    let mut construct_failed = false;
    match catch_unwind(AssertUnwindSafe(|| new_stream(h))) {
        Ok(c) => slots[0] = Some(c),
        Err(e) => {
            if let Some(s) = e.downcast_ref::<String>() {
                if s.starts_with("harness:") {
                    for e in evs.iter_mut() {
                        set_out(e, Out::Bad(s.clone()));
                    }
                    return;
                }
            }
            construct_failed = true;
        }
    }
    let mut outs: Vec<Vec<u8>> = Vec::new();
    for ev in evs.iter_mut() {
        // "data_from": k  = use the bytes returned by event k (1-based) as this event's data
        if let Some(k) = ev.get("data_from").and_then(|v| v.as_u64()) {
            let d = outs.get(k as usize - 1).cloned().unwrap_or_default();
            ev.as_object_mut().unwrap().insert("data".into(), json!(d));
        }
        let e = ev.as_object().unwrap().clone();
        let op = get_str(&e, "op").to_string();
        let x = get_usize_or(&e, "x", 1) - 1;
        let o = guarded(|| {
            if op == "new" {
                return if construct_failed { Out::Panic } else { Out::None };
            }
            if op == "clone" {
                let y = get_usize(&e, "y") - 1;
                let c = slots[x].as_ref().expect("harness: dead slot").clone_box();
                slots[y] = Some(c);
                return Out::None;
            }
            let s = slots[x].as_mut().expect("harness: dead slot");
            match op.as_str() {
                "process" => {
                    let d = get_placed(&e, "data", "off");
                    // destination pre-filled with a pattern: the result must not depend on it
                    let mut out = Placed::new(&vec![0x5au8; get_usize_or(&e, "n", d.get().len())], e.get("ooff").and_then(|v| v.as_u64()).map(|x| x as usize));
                    s.process(d.get(), out.get_mut());
                    Out::Val(out.get().to_vec())
                }
                "process_mut" => {
                    let mut d = get_placed(&e, "data", "off");
                    s.process_mut(d.get_mut());
                    Out::Val(d.get().to_vec())
                }
                "seek" => {
                    s.seek(get_limbs_u64(&e, "block") as u32);
                    Out::None
                }
                "set_counter" => {
                    s.set_counter(get_limbs_u64(&e, "block"));
                    Out::None
                }
                _ => Out::Bad(format!("harness: unknown stream op {}", op)),
            }
        });
        outs.push(if let Out::Val(v) = &o { v.clone() } else { Vec::new() });
        set_out(ev, o);
    }
}

/// class "engine": the ChaCha engines behind the verification hook (one event = one query)
/// {"op":"block"|"hchacha", "engine":"native"|"portable", "rounds", "key", "nonce" (8|12|16 bytes),
///  "ctr": limbs (set through set_counter64 when present), "ctr32": limbs (set through set_counter),
///  "inc": n, "inc64": n  (number of increment()/increment64() calls before the query), "ctr32b": limbs (set_counter once more, after the increments)}
pub fn run_engine(_h: &Ev, evs: &mut Vec<Value>) {
    for ev in evs.iter_mut() {
        let e = ev.as_object().unwrap().clone();
        let o = guarded(|| {
            let key = get_bytes(&e, "key");
            let nonce = get_bytes(&e, "nonce");
            let rounds = get_usize(&e, "rounds");
            let op = get_str(&e, "op").to_string();
            macro_rules! go {
                ($eng:ident, $r:literal) => {{
                    let mut st = $eng::<$r>::init(&key, &nonce);
                    if e.contains_key("ctr") {
                        let c = get_limbs_u64(&e, "ctr");
                        st.set_counter64(c as u32, (c >> 32) as u32);
                    }
                    if e.contains_key("ctr32") {
                        st.set_counter(get_limbs_u64(&e, "ctr32") as u32);
                    }
                    for _ in 0..get_usize_or(&e, "inc", 0) {
                        st.increment();
                    }
                    for _ in 0..get_usize_or(&e, "inc64", 0) {
                        st.increment64();
                    }
                    // a second positioning of a state that has already been positioned / advanced
                    if e.contains_key("ctr32b") {
                        st.set_counter(get_limbs_u64(&e, "ctr32b") as u32);
                    }
                    if op == "hchacha" {
                        Out::Val(st.hchacha().to_vec())
                    } else {
                        Out::Val(st.block().to_vec())
                    }
                }};
            }
            match (get_str(&e, "engine"), rounds) {
                ("native", 8) => go!(VerifEngine, 8),
                ("native", 12) => go!(VerifEngine, 12),
                ("native", 20) => go!(VerifEngine, 20),
                ("portable", 8) => go!(VerifPortableEngine, 8),
                ("portable", 12) => go!(VerifPortableEngine, 12),
                ("portable", 20) => go!(VerifPortableEngine, 20),
                _ => Out::Bad("harness: unknown engine/rounds".into()),
            }
        });
        set_out(ev, o);
    }
}

/// class "drg": {rounds, seed}
pub fn run_drg(h: &Ev, evs: &mut Vec<Value>) {
    let seed: [u8; 32] = arr(&get_bytes(h, "seed"));
    macro_rules! go {
        ($r:literal) => {{
            let mut construct_failed = false;
            let mut d = match catch_unwind(AssertUnwindSafe(|| Drg::<$r>::new(&seed))) {
                Ok(d) => Some(d),
                Err(_) => {
                    construct_failed = true;
                    None
                }
            };
            for ev in evs.iter_mut() {
                let e = ev.as_object().unwrap().clone();
                let op = get_str(&e, "op").to_string();
                let o = guarded(|| {
                    if op == "new" {
                        return if construct_failed { Out::Panic } else { Out::None };
                    }
                    let d = d.as_mut().expect("harness: dead slot");
                    macro_rules! bytes_n {
                        ($n:literal) => {
                            Out::Val(d.bytes::<$n>().to_vec())
                        };
                    }
                    macro_rules! fill_n {
                        ($n:literal, $p:expr) => {{
                            let mut b: [u8; $n] = arr($p);
                            d.fill_bytes(&mut b);
                            Out::Val(b.to_vec())
                        }};
                    }
                    match op.as_str() {
                        "bytes" => match get_usize(&e, "n") {
                            0 => bytes_n!(0),
                            1 => bytes_n!(1),
                            3 => bytes_n!(3),
                            4 => bytes_n!(4),
                            8 => bytes_n!(8),
                            16 => bytes_n!(16),
                            32 => bytes_n!(32),
                            63 => bytes_n!(63),
                            64 => bytes_n!(64),
                            65 => bytes_n!(65),
                            129 => bytes_n!(129),
                            n => Out::Bad(format!("harness: bytes<{}> not instantiated", n)),
                        },
                        "fill_bytes" => {
                            let p = get_bytes(&e, "prior");
                            match p.len() {
                                0 => fill_n!(0, &p),
                                1 => fill_n!(1, &p),
                                3 => fill_n!(3, &p),
                                4 => fill_n!(4, &p),
                                8 => fill_n!(8, &p),
                                16 => fill_n!(16, &p),
                                32 => fill_n!(32, &p),
                                63 => fill_n!(63, &p),
                                64 => fill_n!(64, &p),
                                65 => fill_n!(65, &p),
                                129 => fill_n!(129, &p),
                                n => Out::Bad(format!("harness: fill_bytes<{}> not instantiated", n)),
                            }
                        }
                        "fill_slice" => {
                            let mut p = get_bytes(&e, "prior");
                            d.fill_slice(&mut p);
                            Out::Val(p)
                        }
                        "u32" => Out::Val(d.u32().to_be_bytes().to_vec()),
                        "u64" => Out::Val(d.u64().to_be_bytes().to_vec()),
                        _ => Out::Bad(format!("harness: unknown drg op {}", op)),
                    }
                });
                set_out(ev, o);
            }
        }};
    }
    match get_usize(h, "rounds") {
        8 => go!(8),
        12 => go!(12),
        20 => go!(20),
        7 => go!(7),
        r => {
            for e in evs.iter_mut() {
                set_out(e, Out::Bad(format!("harness: drg rounds {} not instantiated", r)));
            }
        }
    }
}
