//! curve25519 / x25519 / ed25519 / field, scalar and group arithmetic (properties C12-C15, C17)
use crate::*;
use cryptoxide::curve25519::{curve25519, curve25519_base, Fe, Ge, GePartial, Scalar};
use cryptoxide::ed25519;
use cryptoxide::x25519;

fn a32(e: &Ev, k: &str) -> [u8; 32] {
    let v = get_bytes(e, k);
    v.as_slice().try_into().unwrap_or_else(|_| panic!("harness: {} must be 32 bytes", k))
}
fn a64(e: &Ev, k: &str) -> [u8; 64] {
    let v = get_bytes(e, k);
    v.as_slice().try_into().unwrap_or_else(|_| panic!("harness: {} must be 64 bytes", k))
}

pub fn call(op: &str, e: &Ev) -> Option<Out> {
    Some(match op {
        "curve25519" => Out::Val(curve25519(&a32(e, "n"), &a32(e, "p")).to_vec()),
        "curve25519_base" => Out::Val(curve25519_base(&a32(e, "n")).to_vec()),
        "curve25519_chain" => {
            // RFC 7748 section 5.2 iteration: k = u = 9; k, u = X25519(k, u), k; returns k_1 || ... || k_n
            let mut k = [0u8; 32];
            k[0] = 9;
            let mut u = k;
            let mut out = Vec::new();
            for _ in 0..get_usize(e, "n") {
                let r = curve25519(&k, &u);
                u = k;
                k = r;
                out.extend_from_slice(&k);
            }
            Out::Val(out)
        }
        "x25519_dh" => {
            let sk = x25519::SecretKey::from(a32(e, "n"));
            let pk = x25519::PublicKey::from(a32(e, "p"));
            let ss: [u8; 32] = x25519::dh(&sk, &pk).into();
            Out::Val(ss.to_vec())
        }
        "x25519_base" => {
            let sk = x25519::SecretKey::from(a32(e, "n"));
            let pk: [u8; 32] = x25519::base(&sk).into();
            Out::Val(pk.to_vec())
        }
        "x25519_try_from" => {
            let b = get_bytes(e, "bytes");
            let ok = match get_str(e, "kind") {
                "secret" => x25519::SecretKey::try_from(&b[..]).map(|k| k.as_ref().to_vec()),
                "public" => x25519::PublicKey::try_from(&b[..]).map(|k| k.as_ref().to_vec()),
                _ => x25519::SharedSecret::try_from(&b[..]).map(|k| k.as_ref().to_vec()),
            };
            match ok {
                Ok(v) => Out::Val(v),
                Err(_) => Out::Panic, // refused (Err) is logged like a panic
            }
        }
        "ed_keypair" => {
            let (kp, pk) = ed25519::keypair(&a32(e, "seed"));
            let mut v = kp.to_vec();
            v.extend_from_slice(&pk);
            v.extend_from_slice(ed25519::keypair_private(&kp));
            v.extend_from_slice(ed25519::keypair_public(&kp));
            Out::Val(v)
        }
        "ed_extended_to_public" => Out::Val(ed25519::extended_to_public(&a64(e, "ext")).to_vec()),
        "ed_signature" => {
            // keypair = seed || public key as returned by keypair()
            let kp = if e.contains_key("keypair") { a64(e, "keypair") } else { ed25519::keypair(&a32(e, "seed")).0 };
            Out::Val(ed25519::signature(&get_bytes(e, "msg"), &kp).to_vec())
        }
        "ed_signature_extended" => Out::Val(ed25519::signature_extended(&get_bytes(e, "msg"), &a64(e, "ext")).to_vec()),
        "ed_verify" => out_bool(ed25519::verify(&get_bytes(e, "msg"), &a32(e, "pk"), &a64(e, "sig"))),
        "ed_exchange" => Out::Val(ed25519::exchange(&a32(e, "pk"), &a32(e, "sk")).to_vec()),
        "scalar_reduce_wide" => Out::Val(Scalar::reduce_from_wide_bytes(&a64(e, "bytes")).to_bytes().to_vec()),
        "scalar_canonical" => match Scalar::from_bytes_canonical(&a32(e, "bytes")) {
            Some(s) => {
                let mut v = vec![1u8];
                v.extend_from_slice(&s.to_bytes());
                Out::Val(v)
            }
            None => Out::Val(vec![0u8]),
        },
        "scalar_roundtrip" => Out::Val(Scalar::from_bytes(&a32(e, "bytes")).to_bytes().to_vec()),
        "ge_scalarmult_base" => Out::Val(Ge::scalarmult_base(&Scalar::from_bytes(&a32(e, "s"))).to_bytes().to_vec()),
        "ge_double_scalarmult" => match Ge::from_bytes(&a32(e, "A")) {
            None => Out::Val(vec![0u8]),
            Some(a) => {
                let r = GePartial::double_scalarmult_vartime(&Scalar::from_bytes(&a32(e, "a")), a, &Scalar::from_bytes(&a32(e, "b")));
                let mut v = vec![1u8];
                v.extend_from_slice(&r.to_bytes());
                Out::Val(v)
            }
        },
        "ge_decode" => match Ge::from_bytes(&a32(e, "bytes")) {
            None => Out::Val(vec![0u8]),
            Some(p) => {
                let mut v = vec![1u8];
                v.extend_from_slice(&p.to_bytes());
                v.extend_from_slice(&p.clone().to_partial().to_bytes());
                Out::Val(v)
            }
        },
        "sweep" => {
            // a large seeded workload folded into a short digest (count of accepting results + FNV-1a of all outputs): only meaningful for
            // comparing configurations with each other (TraceEquiv), e.g. the two limb back-ends on millions of inputs
            let kind = get_str(e, "kind").to_string();
            let (seed, start, count) = (get_limbs_u64(e, "seed"), get_limbs_u64(e, "start"), get_limbs_u64(e, "count"));
            let mut h: u64 = 0xcbf29ce484222325;
            let mut nok: u32 = 0;
            let mut fold = |b: &[u8]| {
                for x in b {
                    h = (h ^ (*x as u64)).wrapping_mul(0x100000001b3);
                }
            };
            let rnd32 = |i: u64, salt: u64| -> [u8; 32] {
                let mut out = [0u8; 32];
                let mut z = seed ^ i.wrapping_mul(0x9e3779b97f4a7c15) ^ salt.wrapping_mul(0xd1342543de82ef95);
                for c in out.chunks_mut(8) {
                    z = z.wrapping_add(0x9e3779b97f4a7c15);
                    let mut v = z;
                    v = (v ^ (v >> 30)).wrapping_mul(0xbf58476d1ce4e5b9);
                    v = (v ^ (v >> 27)).wrapping_mul(0x94d049bb133111eb);
                    v ^= v >> 31;
                    c.copy_from_slice(&v.to_le_bytes());
                }
                out
            };
            for i in start..start + count {
                match kind.as_str() {
                    "ge_decode" => match Ge::from_bytes(&rnd32(i, 1)) {
                        Some(p) => {
                            nok += 1;
                            fold(&p.to_bytes());
                        }
                        None => fold(&[0]),
                    },
                    "sign" => {
                        let (kp, pk) = ed25519::keypair(&rnd32(i, 2));
                        let msg = i.to_le_bytes();
                        let sig = ed25519::signature(&msg, &kp);
                        fold(&pk);
                        fold(&sig);
                        nok += ed25519::verify(&msg, &pk, &sig) as u32;
                    }
                    "x25519" => fold(&curve25519(&rnd32(i, 3), &rnd32(i, 4))),
                    "scalar" => {
                        let mut w = [0u8; 64];
                        w[..32].copy_from_slice(&rnd32(i, 5));
                        w[32..].copy_from_slice(&rnd32(i, 6));
                        fold(&Scalar::reduce_from_wide_bytes(&w).to_bytes());
                        nok += Scalar::from_bytes_canonical(&rnd32(i, 7)).is_some() as u32;
                    }
                    "fe" => {
                        let (a, b) = (Fe::from_bytes(&rnd32(i, 8)), Fe::from_bytes(&rnd32(i, 9)));
                        let m = &a * &b;
                        let d = &a - &b;
                        let t = &a + &b;
                        fold(&m.to_bytes());
                        fold(&d.to_bytes());
                        fold(&t.to_bytes());
                        fold(&(&t * &d).to_bytes());
                        fold(&m.square_and_double().to_bytes());
                        nok += d.is_nonzero() as u32 + t.is_negative() as u32 + (m == d) as u32;
                    }
                    k => panic!("harness: unknown sweep {}", k),
                }
            }
            let mut v = nok.to_le_bytes().to_vec();
            v.extend_from_slice(&h.to_le_bytes());
            Out::Val(v)
        }
        "ge_ops2" => {
            // operator impls and constants not reached by the other operations: -P, P +/- the precomputed identity
            // (GePrecomp::ZERO is the only precomputed point a user can name), the identities in every representation
            use cryptoxide::curve25519::GePrecomp;
            let p = Ge::scalarmult_base(&Scalar::from_bytes(&a32(e, "p")));
            let mut v = Vec::new();
            v.extend_from_slice(&(-&p).to_bytes());
            v.extend_from_slice(&(&p + &GePrecomp::ZERO).to_full().to_bytes());
            v.extend_from_slice(&(&p - &GePrecomp::ZERO).to_full().to_bytes());
            v.extend_from_slice(&(p.clone() - GePrecomp::ZERO.clone()).to_partial().to_bytes());
            v.extend_from_slice(&Ge::ZERO.to_bytes());
            v.extend_from_slice(&GePartial::ZERO.to_bytes());
            v.extend_from_slice(&(&p + &Ge::ZERO.to_cached()).to_full().to_bytes());
            v.extend_from_slice(&p.clone().to_partial().clone().to_bytes());
            Out::Val(v)
        }
        "scalar_muladd" => {
            let r = cryptoxide::curve25519::scalar::verif_muladd(&Scalar::from_bytes(&a32(e, "a")), &Scalar::from_bytes(&a32(e, "b")), &Scalar::from_bytes(&a32(e, "c")));
            Out::Val(r.to_bytes().to_vec())
        }
        "scalar_consts" => {
            // Scalar::ZERO / ONE, derived equality and Clone
            let s = Scalar::from_bytes(&a32(e, "bytes"));
            let mut v = Vec::new();
            v.extend_from_slice(&Scalar::ZERO.to_bytes());
            v.extend_from_slice(&Scalar::ONE.to_bytes());
            v.push((s == Scalar::ZERO) as u8);
            v.push((s == Scalar::ONE) as u8);
            v.push((s.clone() == s) as u8);
            v.push((s != Scalar::ONE) as u8);
            Out::Val(v)
        }
        "fe_consts" => {
            // the public field constants, through their canonical encodings
            let mut v = Vec::new();
            for f in [&Fe::ZERO, &Fe::ONE, &Fe::SQRTM1, &Fe::D, &Fe::D2] {
                v.extend_from_slice(&f.to_bytes());
            }
            Out::Val(v)
        }
        "x25519_conv" => {
            // every conversion of the three byte wrappers, and the derived comparisons of PublicKey
            use core::convert::TryFrom;
            let (a, b) = (a32(e, "a"), a32(e, "b"));
            let sk = x25519::SecretKey::from(a);
            let ska: [u8; 32] = sk.into();
            let ss = x25519::SharedSecret::from(a);
            let ssa: [u8; 32] = ss.into();
            let (pa, pb) = (x25519::PublicKey::from(a), x25519::PublicKey::from(b));
            let paa: [u8; 32] = x25519::PublicKey::from(a).into();
            let sk2 = x25519::SecretKey::try_from(&b[..]).unwrap();
            let ss2 = x25519::SharedSecret::try_from(&b[..]).unwrap();
            let mut v = Vec::new();
            v.extend_from_slice(&ska);
            v.extend_from_slice(&ssa);
            v.extend_from_slice(&paa);
            v.extend_from_slice(sk2.as_ref());
            v.extend_from_slice(ss2.as_ref());
            v.extend_from_slice(pb.as_ref());
            v.push((pa == pb) as u8);
            v.push((pa < pb) as u8);
            v.push((pa.cmp(&pb) == core::cmp::Ordering::Greater) as u8);
            Out::Val(v)
        }
        "ed_consts" => {
            #[allow(deprecated)]
            let s = ed25519::SEED_LENGTH;
            Out::Val(vec![s as u8, ed25519::PRIVATE_KEY_LENGTH as u8, ed25519::PUBLIC_KEY_LENGTH as u8, ed25519::KEYPAIR_LENGTH as u8,
                          ed25519::EXTENDED_KEY_LENGTH as u8, ed25519::SIGNATURE_LENGTH as u8])
        }
        "ge_ops" => {
            // group law through every public representation: P, Q given as scalars of the base point
            let p = Ge::scalarmult_base(&Scalar::from_bytes(&a32(e, "p")));
            let q = Ge::scalarmult_base(&Scalar::from_bytes(&a32(e, "q")));
            let qc = q.to_cached();
            let mut v = Vec::new();
            v.extend_from_slice(&p.double().to_bytes());
            v.extend_from_slice(&p.double_partial().to_bytes());
            v.extend_from_slice(&p.double_p1p1().to_full().to_bytes());
            v.extend_from_slice(&p.clone().to_partial().double().to_bytes());
            v.extend_from_slice(&p.clone().to_partial().double_full().to_bytes());
            v.extend_from_slice(&p.clone().to_partial().double_p1p1().to_partial().to_bytes());
            v.extend_from_slice(&(&p + &qc).to_full().to_bytes());
            v.extend_from_slice(&(&p + &qc).to_partial().to_bytes());
            v.extend_from_slice(&(&p - &qc).to_full().to_bytes());
            v.extend_from_slice(&(p.clone() - qc.clone()).to_partial().to_bytes());
            // the doubled point in extended coordinates used as an operand (its t coordinate matters): Q + 2P, Q - 2P, 2 * (2P)
            let d2 = p.double();
            v.extend_from_slice(&(&q + &d2.to_cached()).to_full().to_bytes());
            v.extend_from_slice(&(&q - &d2.to_cached()).to_full().to_bytes());
            v.extend_from_slice(&d2.double().to_bytes());
            Out::Val(v)
        }
        _ => return None,
    })
}

/// class "feprog": a straight-line program over 4 field-element registers; every event's result is observed
/// through to_bytes (or the predicate it computes)
pub fn run_feprog(_h: &Ev, evs: &mut Vec<Value>) {
    let mut r: Vec<Fe> = vec![Fe::ZERO, Fe::ONE, Fe::ZERO, Fe::ONE];
    for ev in evs.iter_mut() {
        let e = ev.as_object().unwrap().clone();
        let op = get_str(&e, "op").to_string();
        let d = get_usize_or(&e, "d", 1) - 1;
        let a = get_usize_or(&e, "a", 1) - 1;
        let b = get_usize_or(&e, "b", 1) - 1;
        let o = guarded(|| {
            let v = match op.as_str() {
                "from_bytes" => Fe::from_bytes(&a32(&e, "bytes")),
                // operators by value: they exist in the 32-bit back-end only (the f32 build of the harness)
                #[cfg(feature = "f32")]
                "add_v" => r[a].clone() + r[b].clone(),
                #[cfg(feature = "f32")]
                "sub_v" => r[a].clone() - r[b].clone(),
                #[cfg(feature = "f32")]
                "mul_v" => r[a].clone() * r[b].clone(),
                "add" => &r[a] + &r[b],
                "sub" => &r[a] - &r[b],
                "neg" => -&r[a],
                "mul" => &r[a] * &r[b],
                "square" => r[a].square(),
                "square_and_double" => r[a].square_and_double(),
                "mul_small" => r[a].verif_mul_small(get_usize_or(&e, "nine", 0) == 1),
                "square_repeatdly" => r[a].square_repeatdly(get_usize(&e, "n")),
                "invert" => r[a].invert(),
                "pow25523" => r[a].pow25523(),
                // the same value through its canonical byte representation (another limb representation of it)
                "recanon" => Fe::from_bytes(&r[a].to_bytes()),
                "is_negative" => return out_bool(r[a].is_negative()),
                "is_nonzero" => return out_bool(r[a].is_nonzero()),
                "eq" => return out_bool(r[a] == r[b]),
                "ne" => {
                    use cryptoxide::constant_time::CtEqual;
                    // != and the constant-time inequality must agree with each other (and with not ==)
                    let x = r[a] != r[b];
                    let y = (&r[a]).ct_ne(&r[b]).is_true();
                    return Out::Val(vec![x as u8, y as u8]);
                }
                "to_bytes" => return Out::Val(r[a].to_bytes().to_vec()),
                _ => return Out::Bad(format!("harness: unknown fe op {}", op)),
            };
            let out = v.to_bytes().to_vec();
            r[d] = v;
            Out::Val(out)
        });
        set_out(ev, o);
    }
}
