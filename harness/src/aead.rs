//! ChaCha20-Poly1305: incremental Context -> ContextEncryption | ContextDecryption, and the one-shot object
//! (properties C06, C07, C20)
use crate::*;
use cryptoxide::chacha20poly1305::{ChaChaPoly1305, Context, ContextDecryption, ContextEncryption, DecryptionResult, Tag};

enum A<const R: usize> {
    Aad(Context<R>),
    Enc(ContextEncryption<R>),
    Dec(ContextDecryption<R>),
    Gone,
}

fn run_inc<const R: usize>(h: &Ev, evs: &mut Vec<Value>) {
    let key = get_bytes(h, "key");
    let nonce: [u8; 12] = get_bytes(h, "nonce").as_slice().try_into().expect("harness: nonce must be 12 bytes");
    const NSLOT: usize = 3;
    let mut slots: Vec<A<R>> = (0..NSLOT).map(|_| A::Gone).collect();
    let mut construct_failed = false;
    match catch_unwind(AssertUnwindSafe(|| Context::<R>::new(&key, &nonce))) {
        Ok(c) => slots[0] = A::Aad(c),
        Err(_) => construct_failed = true,
    }
    for ev in evs.iter_mut() {
        let e = ev.as_object().unwrap().clone();
        let op = get_str(&e, "op").to_string();
        let x = get_usize_or(&e, "x", 1) - 1;
        let o = guarded(|| {
            if op == "new" {
                return if construct_failed { Out::Panic } else { Out::None };
            }
            if op == "clone" {
                let y = get_usize(&e, "y") - 1;
                let c = match &slots[x] {
                    A::Aad(c) => A::Aad(c.clone()),
                    A::Enc(c) => A::Enc(c.clone()),
                    A::Dec(c) => A::Dec(c.clone()),
                    A::Gone => panic!("harness: dead slot"),
                };
                slots[y] = c;
                return Out::None;
            }
            let cur = std::mem::replace(&mut slots[x], A::Gone);
            match (op.as_str(), cur) {
                ("add_data", A::Aad(mut c)) => {
                    c.add_data(&get_bytes(&e, "data"));
                    slots[x] = A::Aad(c);
                    Out::None
                }
                ("to_encryption", A::Aad(c)) => {
                    slots[x] = A::Enc(c.to_encryption());
                    Out::None
                }
                ("to_decryption", A::Aad(c)) => {
                    slots[x] = A::Dec(c.to_decryption());
                    Out::None
                }
                ("encrypt", A::Enc(mut c)) => {
                    let d = get_bytes(&e, "data");
                    let mut out = vec![0x5au8; get_usize_or(&e, "n", d.len())];
                    let r = catch_unwind(AssertUnwindSafe(|| c.encrypt(&d, &mut out)));
                    slots[x] = A::Enc(c);
                    match r {
                        Ok(()) => Out::Val(out),
                        Err(_) => Out::Panic,
                    }
                }
                ("encrypt_mut", A::Enc(mut c)) => {
                    let mut d = get_bytes(&e, "data");
                    c.encrypt_mut(&mut d);
                    slots[x] = A::Enc(c);
                    Out::Val(d)
                }
                ("decrypt", A::Dec(mut c)) => {
                    let d = get_bytes(&e, "data");
                    let mut out = vec![0x5au8; get_usize_or(&e, "n", d.len())];
                    let r = catch_unwind(AssertUnwindSafe(|| c.decrypt(&d, &mut out)));
                    slots[x] = A::Dec(c);
                    match r {
                        Ok(()) => Out::Val(out),
                        Err(_) => Out::Panic,
                    }
                }
                ("decrypt_mut", A::Dec(mut c)) => {
                    let mut d = get_bytes(&e, "data");
                    c.decrypt_mut(&mut d);
                    slots[x] = A::Dec(c);
                    Out::Val(d)
                }
                ("finalize", A::Enc(c)) => {
                    let Tag(t) = c.finalize();
                    Out::Val(t.to_vec())
                }
                ("finalize", A::Dec(c)) => {
                    let t: [u8; 16] = get_bytes(&e, "tag").as_slice().try_into().expect("harness: tag must be 16 bytes");
                    out_bool(match c.finalize(&Tag(t)) {
                        DecryptionResult::Match => true,
                        DecryptionResult::MisMatch => false,
                    })
                }
                (o, _) => Out::Bad(format!("harness: aead op {} not possible in this phase", o)),
            }
        });
        set_out(ev, o);
    }
}

/// one-shot object: {"op":"encrypt","data","n"(output length),"taglen"} -> ct || tag
///                  {"op":"decrypt","data","tag","n"} -> [verdict] || (plaintext when accepted)
fn run_one<const R: usize>(h: &Ev, evs: &mut Vec<Value>) {
    let key = get_bytes(h, "key");
    let nonce: [u8; 12] = get_bytes(h, "nonce").as_slice().try_into().expect("harness: nonce must be 12 bytes");
    let aad = get_bytes(h, "aad");
    let mut construct_failed = false;
    let mut obj = match catch_unwind(AssertUnwindSafe(|| ChaChaPoly1305::<R>::new(&key, &nonce, &aad))) {
        Ok(c) => Some(c),
        Err(_) => {
            construct_failed = true;
            None
        }
    };
    let mut other: Option<ChaChaPoly1305<R>> = None;
    for ev in evs.iter_mut() {
        let e = ev.as_object().unwrap().clone();
        let op = get_str(&e, "op").to_string();
        let o = guarded(|| {
            if op == "new" {
                return if construct_failed { Out::Panic } else { Out::None };
            }
            if op == "clone" {
                other = Some(obj.as_ref().expect("harness: dead slot").clone());
                return Out::None;
            }
            let c = if get_usize_or(&e, "x", 1) == 2 { other.as_mut() } else { obj.as_mut() }.expect("harness: dead slot");
            let d = get_bytes(&e, "data");
            let mut out = vec![0x5au8; get_usize_or(&e, "n", d.len())];
            match op.as_str() {
                "encrypt" => {
                    let mut tag = vec![0x5au8; get_usize_or(&e, "taglen", 16)];
                    c.encrypt(&d, &mut out, &mut tag);
                    out.extend_from_slice(&tag);
                    Out::Val(out)
                }
                "decrypt" => {
                    let ok = c.decrypt(&d, &mut out, &get_bytes(&e, "tag"));
                    let mut v = vec![ok as u8];
                    if ok {
                        v.extend_from_slice(&out);
                    }
                    Out::Val(v)
                }
                _ => Out::Bad(format!("harness: unknown aead1 op {}", op)),
            }
        });
        set_out(ev, o);
    }
}

pub fn run(h: &Ev, evs: &mut Vec<Value>, oneshot: bool) {
    macro_rules! go {
        ($r:literal) => {
            if oneshot {
                run_one::<$r>(h, evs)
            } else {
                run_inc::<$r>(h, evs)
            }
        };
    }
    match get_usize(h, "rounds") {
        20 => go!(20),
        12 => go!(12),
        8 => go!(8),
        7 => go!(7),
        r => {
            for e in evs.iter_mut() {
                set_out(e, Out::Bad(format!("harness: aead rounds {} not instantiated", r)));
            }
        }
    }
}
