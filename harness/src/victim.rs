//! Victims of the instruction-trace observation (property C19): `drive --victim <name> <secret hex> [public hex]`.
//! The operation runs between two getppid() system calls (markers for ct/pctrace.c); everything that depends on
//! the command line (parsing, allocation of inputs and outputs) happens before the first marker of the window,
//! printing happens after the second.  Public inputs and all lengths are fixed by the victim name and the
//! optional public argument; only the secret varies between the runs that are compared.
use cryptoxide::chacha20::ChaCha;
use cryptoxide::chacha20poly1305::Tag;
use cryptoxide::curve25519::{curve25519, curve25519_base};
use cryptoxide::ed25519;
use cryptoxide::hmac::Hmac;
use cryptoxide::mac::{Mac, MacResult};
use cryptoxide::poly1305::Poly1305;
use cryptoxide::salsa20::Salsa;
use std::hint::black_box;

fn unhex(s: &str) -> Vec<u8> {
    (0..s.len() / 2).map(|i| u8::from_str_radix(&s[2 * i..2 * i + 2], 16).expect("hex")).collect()
}
#[inline(never)]
fn marker() {
    black_box(std::os::unix::process::parent_id());
}
fn arr<const N: usize>(v: &[u8]) -> [u8; N] {
    v.try_into().unwrap_or_else(|_| {
        eprintln!("victim: expected {} bytes, got {}", N, v.len());
        std::process::exit(2)
    })
}

pub fn main(args: &[String]) -> i32 {
    if args.len() < 2 {
        eprintln!("usage: drive --victim <name> <secret hex> [public hex]");
        return 2;
    }
    let name = args[0].as_str();
    let secret = unhex(&args[1]);
    let public = if args.len() > 2 { unhex(&args[2]) } else { Vec::new() };
    // first getppid: resolves the symbol and warms the path outside the window
    marker();
    let mut out: Vec<u8> = vec![0u8; 256];
    let msg: Vec<u8> = if public.is_empty() { (0..96u8).collect() } else { public.clone() };
    macro_rules! window {
        ($body:block) => {{
            marker();
            let r = $body;
            marker();
            r
        }};
    }
    match name {
        "x25519" => {
            let n: [u8; 32] = arr(&secret);
            let mut p = [0u8; 32];
            p[0] = 9;
            if public.len() == 32 {
                p = arr(&public);
            }
            let r = window!({ curve25519(black_box(&n), black_box(&p)) });
            out[..32].copy_from_slice(&r);
        }
        "x25519_base" => {
            let n: [u8; 32] = arr(&secret);
            let r = window!({ curve25519_base(black_box(&n)) });
            out[..32].copy_from_slice(&r);
        }
        "ed_keypair" => {
            let seed: [u8; 32] = arr(&secret);
            let (kp, pk) = window!({ ed25519::keypair(black_box(&seed)) });
            out[..64].copy_from_slice(&kp);
            out[64..96].copy_from_slice(&pk);
        }
        "ed_sign" => {
            let seed: [u8; 32] = arr(&secret);
            let (kp, _) = ed25519::keypair(&seed);
            let r = window!({ ed25519::signature(black_box(&msg), black_box(&kp)) });
            out[..64].copy_from_slice(&r);
        }
        // signing with an extended secret key (scalar || prefix): hand-built scalars on both sides of the group order are legal inputs
        "ed_sign_ext" => {
            let ext: [u8; 64] = arr(&secret);
            let r = window!({ ed25519::signature_extended(black_box(&msg), black_box(&ext)) });
            out[..64].copy_from_slice(&r);
        }
        // key exchange on the Edwards keys: secret = private key, public = the peer's public key
        "ed_exchange" => {
            let sk: [u8; 32] = arr(&secret);
            let (_, peer) = ed25519::keypair(&[0x3cu8; 32]);
            let pk: [u8; 32] = if public.len() == 32 { arr(&public) } else { peer };
            let r = window!({ ed25519::exchange(black_box(&pk), black_box(&sk)) });
            out[..32].copy_from_slice(&r);
        }
        // the x25519 newtype interface: construction of the secret key and the exchange
        "x25519_newtype" => {
            let n: [u8; 32] = arr(&secret);
            let mut p = [0u8; 32];
            p[0] = 9;
            let r = window!({
                let sk = cryptoxide::x25519::SecretKey::from(*black_box(&n));
                let pk = cryptoxide::x25519::PublicKey::from(p);
                cryptoxide::x25519::dh(&sk, &pk)
            });
            out[..32].copy_from_slice(r.as_ref());
        }
        // AEAD tag verification against a candidate tag = genuine tag xor mask (the "secret" argument is the mask: where the first wrong
        // byte is must not show): one-shot decrypt and the incremental finalize
        "aead_decrypt" | "aead_finalize" => {
            use cryptoxide::chacha20poly1305::{ChaChaPoly1305, Context, DecryptionResult};
            let (key, nonce, aad) = ([0x42u8; 32], [7u8; 12], [1u8, 2, 3]);
            let pt: Vec<u8> = (0..40u8).collect();
            let mut ct = vec![0u8; 40];
            let mut tag = [0u8; 16];
            ChaChaPoly1305::<20>::new(&key, &nonce, &aad).encrypt(&pt, &mut ct, &mut tag);
            let mask: [u8; 16] = arr(&secret);
            for i in 0..16 {
                tag[i] ^= mask[i];
            }
            let mut back = vec![0u8; 40];
            let ok = if name == "aead_decrypt" {
                let mut c = ChaChaPoly1305::<20>::new(&key, &nonce, &aad);
                window!({ c.decrypt(black_box(&ct), &mut back, black_box(&tag)) })
            } else {
                let mut c = Context::<20>::new(&key, &nonce);
                c.add_data(&aad);
                let mut d = c.to_decryption();
                d.decrypt(&ct, &mut back);
                let t = Tag(tag);
                window!({ matches!(d.finalize(black_box(&t)), DecryptionResult::Match) })
            };
            out[0] = ok as u8;
        }
        "poly1305" => {
            let key: [u8; 32] = arr(&secret);
            let mut tag = [0u8; 16];
            window!({
                let mut m = Poly1305::new(black_box(&key));
                m.input(black_box(&msg));
                m.raw_result(&mut tag);
            });
            out[..16].copy_from_slice(&tag);
        }
        "hmac_sha256" | "hmac_sha512" | "hmac_sha1" => {
            let mut tag = [0u8; 64];
            let n = window!({
                match name {
                    "hmac_sha256" => {
                        let mut m = Hmac::new(cryptoxide::sha2::Sha256::new(), black_box(&secret));
                        m.input(black_box(&msg));
                        m.raw_result(&mut tag[..32]);
                        32
                    }
                    "hmac_sha512" => {
                        let mut m = Hmac::new(cryptoxide::sha2::Sha512::new(), black_box(&secret));
                        m.input(black_box(&msg));
                        m.raw_result(&mut tag[..64]);
                        64
                    }
                    _ => {
                        let mut m = Hmac::new(cryptoxide::sha1::Sha1::new(), black_box(&secret));
                        m.input(black_box(&msg));
                        m.raw_result(&mut tag[..20]);
                        20
                    }
                }
            });
            out[..n].copy_from_slice(&tag[..n]);
        }
        "chacha20" => {
            let nonce = [7u8; 12];
            let mut o = vec![0u8; msg.len()];
            window!({
                let mut c = ChaCha::<20>::new(black_box(&secret), &nonce);
                c.process(black_box(&msg), &mut o);
            });
            out[..o.len().min(256)].copy_from_slice(&o[..o.len().min(256)]);
        }
        "salsa20" => {
            let nonce = [7u8; 8];
            let mut o = vec![0u8; msg.len()];
            window!({
                let mut c = Salsa::<20>::new(black_box(&secret), &nonce);
                c.process(black_box(&msg), &mut o);
            });
            out[..o.len().min(256)].copy_from_slice(&o[..o.len().min(256)]);
        }
        // one field operation on secret operands (the values the ladders and the group formulas compute with are all secret-derived):
        // "fe:<op>" or "fe:<pre>:<op>", secret = a || b (2 x 32 bytes); decoding and the optional preparation step (which gives the operand
        // the limb representation it has inside the ladder) happen before the window
        n if n.starts_with("fe:") => {
            use cryptoxide::curve25519::Fe;
            let parts: Vec<&str> = n.split(':').collect();
            let (pre, op) = if parts.len() == 3 { (parts[1], parts[2]) } else { ("", parts[1]) };
            let a0 = Fe::from_bytes(&arr(&secret[..32]));
            let b = Fe::from_bytes(&arr(&secret[32..64]));
            let a = match pre {
                "" => a0,
                "sub" => &a0 - &b,
                "add" => &a0 + &b,
                "square" => a0.square(),
                "mul" => &a0 * &b,
                _ => {
                    eprintln!("victim: unknown preparation {}", pre);
                    return 2;
                }
            };
            let mut bytes = [0u8; 32];
            let mut flag = 0u8;
            let r = window!({
                let (a, b) = (black_box(&a), black_box(&b));
                match op {
                    "add" => a + b,
                    "sub" => a - b,
                    "neg" => -a,
                    "mul" => a * b,
                    "square" => a.square(),
                    "square_and_double" => a.square_and_double(),
                    "mul_small" => a.verif_mul_small(false),
                    "mul_small9" => a.verif_mul_small(true),
                    "invert" => a.invert(),
                    "to_bytes" => {
                        bytes = a.to_bytes();
                        Fe::ZERO
                    }
                    "is_negative" => {
                        flag = a.is_negative() as u8;
                        Fe::ZERO
                    }
                    _ => {
                        eprintln!("victim: unknown field operation {}", op);
                        std::process::exit(2)
                    }
                }
            });
            out[..32].copy_from_slice(&r.to_bytes());
            out[32..64].copy_from_slice(&bytes);
            out[64] = flag;
        }
        // comparison of a secret tag (the correct one) with a candidate (public argument, same length)
        "mac_eq" => {
            let a = MacResult::new(&secret);
            let b = MacResult::new(&public);
            let r = window!({ black_box(&a) == black_box(&b) });
            out[0] = r as u8;
        }
        "tag_eq" => {
            let a = Tag(arr(&secret));
            let b = Tag(arr(&public));
            let r = window!({ black_box(&a) == black_box(&b) });
            out[0] = r as u8;
        }
        _ => {
            eprintln!("victim: unknown victim {}", name);
            return 2;
        }
    }
    let hex: String = out.iter().take(96).map(|b| format!("{:02x}", b)).collect();
    println!("out {}", hex);
    0
}
