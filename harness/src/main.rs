//! `drive`: executes operation scripts against the real cryptoxide crate and logs what it observed.
//!
//! It contains no oracle: it knows how to construct every public object and how to call every
//! public operation, and writes the returned bytes / verdicts / panics as an ndjson observation
//! trace.  Every verdict is made by TLC over the TLA+ specification.
//!
//! usage: drive <script.ndjson> <trace.ndjson> [first_line]
//! One script line = one history: {"id":n, "cls":class, ...construction parameters..., "ev":[events]}.
//! The output line is the same record with an "out" field added to every event:
//!   {"k":"v","v":[bytes]}  value      {"k":"p","v":[]}  panic      {"k":"n","v":[]}  no value
//! The line is flushed after every history, so that if the process dies (signal) the orchestrator
//! knows which history was executing and records the outcome "crash" for it.
use serde_json::{json, Map, Value};
use std::io::{BufRead, BufReader, BufWriter, Write};
use std::panic::{catch_unwind, AssertUnwindSafe};

mod aead;
mod ct;
mod curve;
mod dig;
mod hash;
mod kdf;
mod macs;
mod stream;
mod victim;

pub type Ev = Map<String, Value>;

pub fn bytes(v: &Value) -> Vec<u8> {
    match v {
        Value::Array(a) => a.iter().map(|x| x.as_u64().expect("byte") as u8).collect(),
        Value::Null => Vec::new(),
        _ => panic!("harness: expected byte array, got {}", v),
    }
}
pub fn get_bytes(e: &Ev, k: &str) -> Vec<u8> {
    bytes(e.get(k).unwrap_or(&Value::Null))
}
pub fn get_usize(e: &Ev, k: &str) -> usize {
    e.get(k).and_then(|v| v.as_u64()).unwrap_or_else(|| panic!("harness: missing integer field {}", k)) as usize
}
pub fn get_usize_or(e: &Ev, k: &str, d: usize) -> usize {
    e.get(k).and_then(|v| v.as_u64()).map(|x| x as usize).unwrap_or(d)
}
pub fn get_str<'a>(e: &'a Ev, k: &str) -> &'a str {
    e.get(k).and_then(|v| v.as_str()).unwrap_or_else(|| panic!("harness: missing string field {}", k))
}
/// A byte string placed at a chosen alignment: when the event carries an "off" field the bytes start `off`
/// bytes after a 64-byte boundary (C16: "slices at every byte offset"), otherwise wherever the allocator put them.
pub struct Placed {
    buf: Vec<u8>,
    start: usize,
    len: usize,
}
impl Placed {
    pub fn new(data: &[u8], off: Option<usize>) -> Placed {
        match off {
            None => Placed { buf: data.to_vec(), start: 0, len: data.len() },
            Some(off) => {
                let mut buf = vec![0xc3u8; data.len() + 192];
                let start = buf.as_ptr().align_offset(64) + off;
                buf[start..start + data.len()].copy_from_slice(data);
                Placed { buf, start, len: data.len() }
            }
        }
    }
    pub fn get(&self) -> &[u8] {
        &self.buf[self.start..self.start + self.len]
    }
    pub fn get_mut(&mut self) -> &mut [u8] {
        &mut self.buf[self.start..self.start + self.len]
    }
}
/// the event's byte field `k`, placed according to the event's offset field `offk` (if present)
pub fn get_placed(e: &Ev, k: &str, offk: &str) -> Placed {
    Placed::new(&get_bytes(e, k), e.get(offk).and_then(|v| v.as_u64()).map(|x| x as usize))
}
/// u64 given as a list of 16-bit limbs, little-endian (TLC integers are 32-bit)
pub fn get_limbs_u64(e: &Ev, k: &str) -> u64 {
    let a = e.get(k).and_then(|v| v.as_array()).unwrap_or_else(|| panic!("harness: missing limb field {}", k));
    let mut r: u64 = 0;
    for (i, l) in a.iter().enumerate() {
        r |= l.as_u64().unwrap() << (16 * i);
    }
    r
}

/// outcome of one event
pub enum Out {
    Val(Vec<u8>),
    None,
    Panic,
    /// refused with an error value (the code identifies the variant)
    Refused(u8),
    /// the harness itself cannot perform the request (bad script): a tool error, never a verdict
    Bad(String),
}
pub fn out_bool(b: bool) -> Out {
    Out::Val(vec![b as u8])
}
impl Out {
    fn to_json(&self) -> Value {
        match self {
            Out::Val(b) => json!({"k":"v","v":b}),
            Out::None => json!({"k":"n","v":[]}),
            Out::Panic => json!({"k":"p","v":[]}),
            Out::Refused(c) => json!({"k":"p","v":[c]}),
            Out::Bad(m) => json!({"k":"bad","v":[],"msg":m}),
        }
    }
}

/// run `f`, turning a panic of the code under test into data
pub fn guarded<F: FnOnce() -> Out>(f: F) -> Out {
    match catch_unwind(AssertUnwindSafe(f)) {
        Ok(o) => o,
        Err(e) => {
            let msg = if let Some(s) = e.downcast_ref::<&str>() {
                s.to_string()
            } else if let Some(s) = e.downcast_ref::<String>() {
                s.clone()
            } else {
                String::new()
            };
            if msg.starts_with("harness:") {
                Out::Bad(msg)
            } else {
                Out::Panic
            }
        }
    }
}

fn run_history(h: &mut Ev) {
    let cls = get_str(h, "cls").to_string();
    let evs = h.remove("ev").unwrap_or(Value::Array(vec![]));
    let mut evs = match evs {
        Value::Array(a) => a,
        _ => panic!("harness: ev must be an array"),
    };
    match cls.as_str() {
        "hash" => hash::run(h, &mut evs),
        "digest" => dig::run(h, &mut evs),
        "mac" => macs::run(h, &mut evs),
        "stream" => stream::run(h, &mut evs),
        "engine" => stream::run_engine(h, &mut evs),
        "drg" => stream::run_drg(h, &mut evs),
        "aead" => aead::run(h, &mut evs, false),
        "aead1" => aead::run(h, &mut evs, true),
        "fn" => kdf::run(h, &mut evs),
        "feprog" => curve::run_feprog(h, &mut evs),
        "ct" => ct::run(h, &mut evs),
        _ => {
            for e in evs.iter_mut() {
                e.as_object_mut().unwrap().insert("out".into(), Out::Bad(format!("harness: unknown class {}", cls)).to_json());
            }
        }
    }
    // an object lost to a panic of the code under test (a constructor or a consuming call that panicked) cannot serve later events: that is an
    // observation ("x": not executable), not a script error - the panic itself is recorded at the earlier event and judged there
    let mut panicked = false;
    for e in evs.iter_mut() {
        let o = e.get("out").cloned().unwrap_or(Value::Null);
        let k = o.get("k").and_then(|v| v.as_str()).unwrap_or("");
        if k == "p" {
            panicked = true;
        } else if k == "bad" && panicked && o.get("msg").and_then(|v| v.as_str()).map_or(false, |m| m.contains("dead slot")) {
            e.as_object_mut().unwrap().insert("out".into(), json!({"k": "x", "v": []}));
        }
    }
    h.insert("ev".into(), Value::Array(evs));
}

pub fn set_out(e: &mut Value, o: Out) {
    e.as_object_mut().unwrap().insert("out".into(), o.to_json());
}

fn main() {
    let args: Vec<String> = std::env::args().collect();
    if args.len() > 1 && args[1] == "--victim" {
        std::process::exit(victim::main(&args[2..]));
    }
    if args.len() < 3 {
        eprintln!("usage: drive <script.ndjson> <trace.ndjson> [first_line]");
        std::process::exit(2);
    }
    std::panic::set_hook(Box::new(|_| {}));
    let first: usize = if args.len() > 3 { args[3].parse().unwrap() } else { 0 };
    let inp = BufReader::new(std::fs::File::open(&args[1]).expect("open script"));
    let out = std::fs::OpenOptions::new().create(true).append(true).open(&args[2]).expect("open trace");
    let mut out = BufWriter::new(out);
    for (i, line) in inp.lines().enumerate() {
        if i < first {
            continue;
        }
        let line = line.unwrap();
        if line.trim().is_empty() {
            continue;
        }
        let mut h: Ev = match serde_json::from_str::<Value>(&line) {
            Ok(Value::Object(m)) => m,
            _ => {
                eprintln!("drive: bad script line {}", i);
                std::process::exit(2);
            }
        };
        // marker for the orchestrator: which history is about to run
        eprintln!("H {}", i);
        run_history(&mut h);
        serde_json::to_writer(&mut out, &Value::Object(h)).unwrap();
        out.write_all(b"\n").unwrap();
        out.flush().unwrap();
    }
}
