//! class "fn": one event = one call of a pure function (KDFs here; curve and constant-time functions in curve.rs / ct.rs)
use crate::dig::new_digest;
use crate::*;
use cryptoxide::hmac::Hmac;

/// the digest instance handed to HKDF: fresh, or (field "used": bytes) one that has already absorbed input, or ("used_final": true)
/// one that was also finalised - the functions reset the instance they are given
fn used_digest(e: &Ev) -> crate::dig::DynDigest {
    use cryptoxide::digest::Digest;
    let mut d = new_digest(e);
    if e.contains_key("used") {
        d.input(&get_bytes(e, "used"));
        if e.get("used_final").and_then(|v| v.as_bool()).unwrap_or(false) {
            let mut o = vec![0u8; d.output_bytes()];
            d.result(&mut o);
        }
    }
    d
}

pub fn call(op: &str, e: &Ev) -> Option<Out> {
    Some(match op {
        "hkdf_extract" => {
            let mut prk = vec![0xa5u8; get_usize(e, "n")];
            cryptoxide::hkdf::hkdf_extract(used_digest(e), &get_bytes(e, "salt"), &get_bytes(e, "ikm"), &mut prk);
            Out::Val(prk)
        }
        "hkdf_expand" => {
            let mut okm = vec![0xa5u8; get_usize(e, "n")];
            cryptoxide::hkdf::hkdf_expand(used_digest(e), &get_bytes(e, "prk"), &get_bytes(e, "info"), &mut okm);
            Out::Val(okm)
        }
        "pbkdf2" => {
            let mut out = vec![0xa5u8; get_usize(e, "n")];
            let mut mac = Hmac::new(new_digest(e), &get_bytes(e, "pw"));
            cryptoxide::pbkdf2::pbkdf2(&mut mac, &get_bytes(e, "salt"), get_usize(e, "c") as u32, &mut out);
            Out::Val(out)
        }
        "pbkdf2_blocks" => {
            // a long derived key of which only the selected blocks (1-based, each output_bytes long) are logged
            let mut out = vec![0xa5u8; get_usize(e, "n")];
            let d = new_digest(e);
            let os = cryptoxide::digest::Digest::output_bytes(&d);
            let mut mac = Hmac::new(d, &get_bytes(e, "pw"));
            cryptoxide::pbkdf2::pbkdf2(&mut mac, &get_bytes(e, "salt"), get_usize(e, "c") as u32, &mut out);
            let mut sel = Vec::new();
            for b in e.get("blocks").and_then(|v| v.as_array()).expect("harness: blocks") {
                let i = b.as_u64().unwrap() as usize;
                sel.extend_from_slice(&out[(i - 1) * os..core::cmp::min(i * os, out.len())]);
            }
            Out::Val(sel)
        }
        "scrypt_params" => {
            // only the parameter check
            let _ = cryptoxide::scrypt::ScryptParams::new(get_usize(e, "logn") as u8, get_limbs_u64(e, "r") as u32, get_limbs_u64(e, "p") as u32);
            Out::None
        }
        "scrypt" => {
            let params = cryptoxide::scrypt::ScryptParams::new(get_usize(e, "logn") as u8, get_usize(e, "r") as u32, get_usize(e, "p") as u32);
            let mut out = vec![0xa5u8; get_usize(e, "n")];
            cryptoxide::scrypt::scrypt(&get_bytes(e, "pw"), &get_bytes(e, "salt"), &params, &mut out);
            Out::Val(out)
        }
        "argon2_built" | "argon2_geometry" | "argon2_index_alpha" => {
            // parameters produced by an arbitrary sequence of setter calls: [{"k": "p"|"m"|"t"|"v", "v": limbs}, ...]
            use cryptoxide::kdf::argon2::{argon2_at, verif_geometry, verif_index_alpha, InvalidParam, Params};
            let mut params = match get_usize_or(e, "type", 2) {
                0 => Params::argon2d(),
                1 => Params::argon2i(),
                _ => Params::argon2id(),
            };
            for st in e.get("setters").and_then(|v| v.as_array()).cloned().unwrap_or_default() {
                let st = st.as_object().expect("harness: setter").clone();
                let v = get_limbs_u64(&st, "v") as u32;
                let r = match get_str(&st, "k") {
                    "p" => params.parallelism(v),
                    "m" => params.memory_kb(v),
                    "t" => params.iterations(v),
                    "v" => params.version(v),
                    k => panic!("harness: unknown setter {}", k),
                };
                params = match r {
                    Ok(p) => p,
                    Err(err) => {
                        return Some(Out::Refused(match err {
                            InvalidParam::ParallelismZero => 1,
                            InvalidParam::ParallelismTooHigh => 2,
                            InvalidParam::IterationsZero => 3,
                            InvalidParam::UnknownVersion => 4,
                            InvalidParam::MemoryTooHigh => 5,
                        }))
                    }
                };
            }
            match op {
                "argon2_geometry" => {
                    let (a, b, c, d) = verif_geometry(&params);
                    Out::Val([a, b, c, d].iter().flat_map(|x| x.to_le_bytes()).collect())
                }
                "argon2_index_alpha" => {
                    let j1 = get_limbs_u64(e, "j1") as u32;
                    let r = verif_index_alpha(&params, get_usize(e, "pass") as u32, get_usize_or(e, "lane", 0) as u32, get_usize(e, "slice") as u32,
                                              get_usize(e, "index") as u32, j1, get_usize(e, "same") == 1);
                    Out::Val(r.to_le_bytes().to_vec())
                }
                _ => {
                    let mut tag = vec![0xa5u8; get_usize(e, "n")];
                    argon2_at(&params, &get_bytes(e, "pw"), &get_bytes(e, "salt"), &get_bytes(e, "key"), &get_bytes(e, "aad"), &mut tag);
                    Out::Val(tag)
                }
            }
        }
        "argon2" => {
            use cryptoxide::kdf::argon2::{argon2, argon2_at, Params};
            let base = match get_usize(e, "type") {
                0 => Params::argon2d(),
                1 => Params::argon2i(),
                2 => Params::argon2id(),
                _ => panic!("harness: unknown argon2 type"),
            };
            // a refused parameter (Err) is logged like a panic: the request was refused
            let params = base
                .parallelism(get_limbs_u64(e, "p") as u32)
                .and_then(|q| q.memory_kb(get_limbs_u64(e, "m") as u32))
                .and_then(|q| q.iterations(get_limbs_u64(e, "t") as u32))
                .and_then(|q| q.version(get_usize(e, "version") as u32));
            let params = match params {
                Ok(p) => p,
                // a refused parameter (Err) is logged as a refusal carrying the variant
                Err(err) => {
                    use cryptoxide::kdf::argon2::InvalidParam;
                    return Some(Out::Refused(match err {
                        InvalidParam::ParallelismZero => 1,
                        InvalidParam::ParallelismTooHigh => 2,
                        InvalidParam::IterationsZero => 3,
                        InvalidParam::UnknownVersion => 4,
                        InvalidParam::MemoryTooHigh => 5,
                    }));
                }
            };
            if e.contains_key("params_only") {
                return Some(Out::None);
            }
            let (pw, salt, key, aad) = (get_bytes(e, "pw"), get_bytes(e, "salt"), get_bytes(e, "key"), get_bytes(e, "aad"));
            let n = get_usize(e, "n");
            if e.get("api").and_then(|v| v.as_str()) == Some("arr") {
                macro_rules! arr {
                    ($t:literal) => {
                        Out::Val(argon2::<$t>(&params, &pw, &salt, &key, &aad).to_vec())
                    };
                }
                match n {
                    4 => arr!(4),
                    16 => arr!(16),
                    32 => arr!(32),
                    64 => arr!(64),
                    65 => arr!(65),
                    96 => arr!(96),
                    100 => arr!(100),
                    128 => arr!(128),
                    _ => panic!("harness: argon2::<{}> not instantiated", n),
                }
            } else {
                let mut tag = vec![0xa5u8; n];
                argon2_at(&params, &pw, &salt, &key, &aad, &mut tag);
                Out::Val(tag)
            }
        }
        _ => return None,
    })
}

pub fn run(_h: &Ev, evs: &mut Vec<Value>) {
    for ev in evs.iter_mut() {
        let e = ev.as_object().unwrap().clone();
        let op = get_str(&e, "op").to_string();
        let o = guarded(|| {
            call(&op, &e)
                .or_else(|| crate::curve::call(&op, &e))
                .unwrap_or_else(|| Out::Bad(format!("harness: unknown function {}", op)))
        });
        set_out(ev, o);
    }
}
