//! class "fn": one event = one call of a pure function (KDFs here; curve and constant-time functions in curve.rs / ct.rs)
use crate::dig::new_digest;
use crate::*;
use cryptoxide::hmac::Hmac;

pub fn call(op: &str, e: &Ev) -> Option<Out> {
    Some(match op {
        "hkdf_extract" => {
            let mut prk = vec![0xa5u8; get_usize(e, "n")];
            cryptoxide::hkdf::hkdf_extract(new_digest(e), &get_bytes(e, "salt"), &get_bytes(e, "ikm"), &mut prk);
            Out::Val(prk)
        }
        "hkdf_expand" => {
            let mut okm = vec![0xa5u8; get_usize(e, "n")];
            cryptoxide::hkdf::hkdf_expand(new_digest(e), &get_bytes(e, "prk"), &get_bytes(e, "info"), &mut okm);
            Out::Val(okm)
        }
        "pbkdf2" => {
            let mut out = vec![0xa5u8; get_usize(e, "n")];
            let mut mac = Hmac::new(new_digest(e), &get_bytes(e, "pw"));
            cryptoxide::pbkdf2::pbkdf2(&mut mac, &get_bytes(e, "salt"), get_usize(e, "c") as u32, &mut out);
            Out::Val(out)
        }
        "scrypt_params" => {
            // only the parameter check
            let _ = cryptoxide::scrypt::ScryptParams::new(get_usize(e, "logn") as u8, get_limbs_u64(e, "r") as u32, get_limbs_u64(e, "p") as u32);
            Out::None
        }
        "scrypt" => {
            let params = cryptoxide::scrypt::ScryptParams::new(get_usize(e, "logn") as u8, get_usize(e, "r") as u32, get_usize(e, "p") as u32);
            let mut out = vec![0xa5u8; get_usize(e, "n")];
            cryptoxide::scrypt::scrypt(&get_bytes(e, "pw"), &get_bytes(e, "salt"), &params, &mut out);
            Out::Val(out)
        }
        _ => return None,
    })
}

pub fn run(_h: &Ev, evs: &mut Vec<Value>) {
    for ev in evs.iter_mut() {
        let e = ev.as_object().unwrap().clone();
        let op = get_str(&e, "op").to_string();
        let o = guarded(|| call(&op, &e).unwrap_or_else(|| Out::Bad(format!("harness: unknown function {}", op))));
        set_out(ev, o);
    }
}
