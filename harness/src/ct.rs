//! constant_time helpers, MacResult and Tag equality (property C18).  One event = one evaluation.
//! {"fn": "u8all"|"u8row"|"u64"|"arr8"|"sl8"|"arr64"|"sl64"|"choice"|"opt"|"swap64"|"set64"|"swap32"|"set32"|"mac"|"tag",
//!  "f": helper name, "a", "b": operands (bytes; u64 = 8 little-endian bytes), "c": choice 0|1}
use crate::*;
use cryptoxide::chacha20poly1305::Tag;
use cryptoxide::constant_time::*;
use cryptoxide::mac::MacResult;

fn choice(c: u64) -> Choice {
    // Choice has no public constructor: obtain it the way the crate does
    c.ct_nonzero()
}
fn u64_of(b: &[u8]) -> u64 {
    u64::from_le_bytes(b.try_into().unwrap_or_else(|_| panic!("harness: u64 operand needs 8 bytes")))
}
fn u64s_of(b: &[u8]) -> Vec<u64> {
    b.chunks(8).map(u64_of).collect()
}

macro_rules! with_len {
    ($n:expr, $m:ident) => {
        match $n {
            0 => $m!(0), 1 => $m!(1), 2 => $m!(2), 3 => $m!(3), 4 => $m!(4), 5 => $m!(5), 6 => $m!(6), 7 => $m!(7),
            8 => $m!(8), 9 => $m!(9), 10 => $m!(10), 11 => $m!(11), 12 => $m!(12), 13 => $m!(13), 14 => $m!(14), 15 => $m!(15),
            16 => $m!(16), 17 => $m!(17), 18 => $m!(18), 19 => $m!(19), 20 => $m!(20), 21 => $m!(21), 22 => $m!(22), 23 => $m!(23),
            24 => $m!(24), 25 => $m!(25), 26 => $m!(26), 27 => $m!(27), 28 => $m!(28), 29 => $m!(29), 30 => $m!(30), 31 => $m!(31),
            32 => $m!(32), 33 => $m!(33), 34 => $m!(34), 35 => $m!(35), 36 => $m!(36), 37 => $m!(37), 38 => $m!(38), 39 => $m!(39),
            40 => $m!(40), 48 => $m!(48), 64 => $m!(64),
            n => panic!("harness: array length {} not instantiated", n),
        }
    };
}

fn arr8(f: &str, a: &[u8], b: &[u8]) -> bool {
    macro_rules! go {
        ($n:literal) => {{
            let x: &[u8; $n] = a.try_into().unwrap();
            match f {
                "ct_zero" => x.ct_zero().is_true(),
                "ct_nonzero" => x.ct_nonzero().is_true(),
                _ => {
                    let y: &[u8; $n] = b.try_into().unwrap_or_else(|_| panic!("harness: operand lengths differ"));
                    match f {
                        "ct_eq" => x.ct_eq(y).is_true(),
                        "ct_ne" => x.ct_ne(y).is_true(),
                        "ct_lt" => <&[u8; $n]>::ct_lt(x, y).is_true(),
                        "ct_ge" => <&[u8; $n]>::ct_ge(x, y).is_true(),
                        _ => panic!("harness: unknown arr8 helper {}", f),
                    }
                }
            }
        }};
    }
    with_len!(a.len(), go)
}
fn arr64(f: &str, a: &[u64], b: &[u64]) -> bool {
    macro_rules! go {
        ($n:literal) => {{
            let x: &[u64; $n] = a.try_into().unwrap();
            match f {
                "ct_zero" => x.ct_zero().is_true(),
                "ct_nonzero" => x.ct_nonzero().is_true(),
                _ => {
                    let y: &[u64; $n] = b.try_into().unwrap_or_else(|_| panic!("harness: operand lengths differ"));
                    match f {
                        "ct_eq" => x.ct_eq(y).is_true(),
                        "ct_ne" => x.ct_ne(y).is_true(),
                        _ => panic!("harness: unknown arr64 helper {}", f),
                    }
                }
            }
        }};
    }
    with_len!(a.len(), go)
}

pub fn run(_h: &Ev, evs: &mut Vec<Value>) {
    for ev in evs.iter_mut() {
        let e = ev.as_object().unwrap().clone();
        let o = guarded(|| {
            let func = get_str(&e, "fn");
            let f = e.get("f").and_then(|v| v.as_str()).unwrap_or("");
            let arr = |k: &str| e.get(k).filter(|v| v.is_array()).map(bytes).unwrap_or_default();
            // operands at chosen addresses modulo 64 ("oa", "ob"): a comparison must not depend on where its operands live
            let off = |k: &str| e.get(k).and_then(|v| v.as_u64()).map(|x| x as usize);
            let pa = Placed::new(&arr("a"), off("oa"));
            let pb = Placed::new(&arr("b"), off("ob"));
            let (a, b) = (pa.get(), pb.get());
            let c = get_usize_or(&e, "c", 0) as u64;
            match func {
                "u8all" => Out::Val(
                    (0..=255u8).map(|v| match f {
                        "ct_zero" => v.ct_zero().is_true() as u8,
                        "ct_nonzero" => v.ct_nonzero().is_true() as u8,
                        _ => panic!("harness: unknown u8 helper {}", f),
                    }).collect(),
                ),
                "u8row" => {
                    let x = get_usize(&e, "a") as u8;
                    Out::Val(
                        (0..=255u8).map(|v| match f {
                            "ct_eq" => x.ct_eq(v).is_true() as u8,
                            "ct_ne" => x.ct_ne(v).is_true() as u8,
                            _ => panic!("harness: unknown u8 helper {}", f),
                        }).collect(),
                    )
                }
                "u64" => {
                    let x = u64_of(&a);
                    out_bool(match f {
                        "ct_zero" => x.ct_zero().is_true(),
                        "ct_nonzero" => x.ct_nonzero().is_true(),
                        _ => {
                            let y = u64_of(&b);
                            match f {
                                "ct_eq" => x.ct_eq(y).is_true(),
                                "ct_ne" => x.ct_ne(y).is_true(),
                                "ct_lt" => u64::ct_lt(x, y).is_true(),
                                "ct_gt" => u64::ct_gt(x, y).is_true(),
                                "ct_le" => u64::ct_le(x, y).is_true(),
                                "ct_ge" => u64::ct_ge(x, y).is_true(),
                                _ => panic!("harness: unknown u64 helper {}", f),
                            }
                        }
                    })
                }
                "arr8" => out_bool(arr8(f, a, b)),
                "sl8" => out_bool(match f {
                    "ct_eq" => a.ct_eq(b).is_true(),
                    "ct_ne" => a.ct_ne(b).is_true(),
                    _ => panic!("harness: unknown sl8 helper {}", f),
                }),
                "arr64" => out_bool(arr64(f, &u64s_of(&a), &u64s_of(&b))),
                "sl64" => {
                    let (x, y) = (u64s_of(&a), u64s_of(&b));
                    out_bool(match f {
                        "ct_zero" => x.as_slice().ct_zero().is_true(),
                        "ct_nonzero" => x.as_slice().ct_nonzero().is_true(),
                        "ct_eq" => x.as_slice().ct_eq(y.as_slice()).is_true(),
                        "ct_ne" => x.as_slice().ct_ne(y.as_slice()).is_true(),
                        _ => panic!("harness: unknown sl64 helper {}", f),
                    })
                }
                "choice" => {
                    let x = choice(get_usize(&e, "a") as u64);
                    let y = choice(get_usize_or(&e, "b", 0) as u64);
                    out_bool(match f {
                        "negate" => x.negate().is_true(),
                        "and" => (x & y).is_true(),
                        "or" => (x | y).is_true(),
                        "xor" => (x ^ y).is_true(),
                        "is_true" => x.is_true(),
                        "is_false" => x.is_false(),
                        "into_bool" => bool::from(x),
                        _ => panic!("harness: unknown choice op {}", f),
                    })
                }
                "opt" => {
                    let o: CtOption<Vec<u8>> = (choice(c), a.to_vec()).into();
                    Out::Val(match o.clone().into_option() {
                        Some(v) => [vec![1u8], v].concat(),
                        None => vec![0u8],
                    })
                }
                "swap64" | "set64" => {
                    let mut x: [u64; 5] = u64s_of(&a).try_into().unwrap_or_else(|_| panic!("harness: swap64 needs 5 limbs"));
                    let mut y: [u64; 5] = u64s_of(&b).try_into().unwrap_or_else(|_| panic!("harness: swap64 needs 5 limbs"));
                    if func == "swap64" {
                        verif_array64_maybe_swap_with(&mut x, &mut y, choice(c));
                        Out::Val(x.iter().chain(y.iter()).flat_map(|v| v.to_le_bytes()).collect())
                    } else {
                        verif_array64_maybe_set(&mut x, &y, choice(c));
                        Out::Val(x.iter().flat_map(|v| v.to_le_bytes()).collect())
                    }
                }
                "swap32" | "set32" => {
                    let conv = |v: &[u8]| -> [i32; 10] {
                        let w: Vec<i32> = v.chunks(4).map(|q| i32::from_le_bytes(q.try_into().unwrap())).collect();
                        w.try_into().unwrap_or_else(|_| panic!("harness: swap32 needs 10 limbs"))
                    };
                    let (mut x, mut y) = (conv(&a), conv(&b));
                    if func == "swap32" {
                        verif_array32_maybe_swap_with(&mut x, &mut y, choice(c));
                        Out::Val(x.iter().chain(y.iter()).flat_map(|v| v.to_le_bytes()).collect())
                    } else {
                        verif_array32_maybe_set(&mut x, &y, choice(c));
                        Out::Val(x.iter().flat_map(|v| v.to_le_bytes()).collect())
                    }
                }
                "mac" => {
                    let (x, y) = (MacResult::new(&a), MacResult::new_from_owned(b.to_vec()));
                    out_bool(match f {
                        "eq" => x == y,
                        "ne" => x != y,
                        _ => panic!("harness: unknown mac op {}", f),
                    })
                }
                "tag" => {
                    let x = Tag(a.try_into().unwrap_or_else(|_| panic!("harness: tag needs 16 bytes")));
                    let y = Tag(b.try_into().unwrap_or_else(|_| panic!("harness: tag needs 16 bytes")));
                    out_bool(match f {
                        "eq" => x == y,
                        "ne" => x != y,
                        "ct_eq" => (&x).ct_eq(&y).is_true(),
                        "ct_ne" => (&x).ct_ne(&y).is_true(),
                        _ => panic!("harness: unknown tag op {}", f),
                    })
                }
                _ => Out::Bad(format!("harness: unknown ct function {}", func)),
            }
        });
        set_out(ev, o);
    }
}
