//! `Mac` objects: Hmac<D>, Poly1305, keyed BLAKE2b / BLAKE2s (properties C05, C08, C09)
use crate::dig::{new_digest, DynDigest};
use crate::*;
use cryptoxide::hmac::Hmac;
use cryptoxide::mac::Mac;
use cryptoxide::poly1305::Poly1305;

pub enum M {
    Hmac(Hmac<DynDigest>),
    Poly(Poly1305),
    B2b(cryptoxide::blake2b::Blake2b),
    B2s(cryptoxide::blake2s::Blake2s),
}
impl M {
    pub fn mac(&mut self) -> &mut dyn Mac {
        match self {
            M::Hmac(m) => m,
            M::Poly(m) => m,
            M::B2b(m) => m,
            M::B2s(m) => m,
        }
    }
    fn try_clone(&self) -> M {
        match self {
            M::Hmac(_) => panic!("harness: Hmac is not Clone"),
            M::Poly(m) => M::Poly(m.clone()),
            M::B2b(m) => M::B2b(m.clone()),
            M::B2s(m) => M::B2s(m.clone()),
        }
    }
}

/// h.mac in {"hmac" (alg[, outlen], key), "poly1305" (key of 32 bytes), "blake2b"/"blake2s" (outlen, key)}
pub fn new_mac(h: &Ev) -> M {
    let key = get_bytes(h, "key");
    match get_str(h, "mac") {
        "hmac" => {
            // the digest of an HMAC is never keyed itself
            let mut hd = h.clone();
            hd.remove("key");
            hd.remove("keyed");
            M::Hmac(Hmac::new(new_digest(&hd), &key))
        }
        "poly1305" => {
            let k: [u8; 32] = key.as_slice().try_into().expect("harness: poly1305 key must be 32 bytes");
            M::Poly(Poly1305::new(&k))
        }
        "blake2b" => M::B2b(cryptoxide::blake2b::Blake2b::new_keyed(get_usize(h, "outlen"), &key)),
        "blake2s" => M::B2s(cryptoxide::blake2s::Blake2s::new_keyed(get_usize(h, "outlen"), &key)),
        m => panic!("harness: unknown mac {}", m),
    }
}

pub fn run(h: &Ev, evs: &mut Vec<Value>) {
    const NSLOT: usize = 4;
    let mut slots: Vec<Option<M>> = (0..NSLOT).map(|_| None).collect();
    let mut construct_failed = false;
    match catch_unwind(AssertUnwindSafe(|| new_mac(h))) {
        Ok(c) => slots[0] = Some(c),
        Err(e) => {
            if let Some(s) = e.downcast_ref::<String>() {
                if s.starts_with("harness:") {
                    for e in evs.iter_mut() {
                        set_out(e, Out::Bad(s.clone()));
                    }
                    return;
                }
            }
            construct_failed = true;
        }
    }
    for ev in evs.iter_mut() {
        let e = ev.as_object().unwrap().clone();
        let op = get_str(&e, "op").to_string();
        let x = get_usize_or(&e, "x", 1) - 1;
        let o = guarded(|| {
            if op == "new" {
                return if construct_failed { Out::Panic } else { Out::None };
            }
            if op == "clone" {
                let y = get_usize(&e, "y") - 1;
                let c = slots[x].as_ref().expect("harness: dead slot").try_clone();
                slots[y] = Some(c);
                return Out::None;
            }
            if op == "reset_with_key" {
                let k = get_bytes(&e, "key");
                match slots[x].as_mut().expect("harness: dead slot") {
                    M::B2b(m) => m.reset_with_key(&k),
                    M::B2s(m) => m.reset_with_key(&k),
                    _ => panic!("harness: reset_with_key unsupported"),
                }
                return Out::None;
            }
            let m = slots[x].as_mut().expect("harness: dead slot").mac();
            match op.as_str() {
                "input" => {
                    m.input(get_placed(&e, "data", "off").get());
                    Out::None
                }
                "result" => Out::Val(m.result().code().to_vec()),
                "raw_result" => {
                    let n = get_usize_or(&e, "n", m.output_bytes());
                    let mut out = vec![0xa5u8; n];
                    m.raw_result(&mut out);
                    Out::Val(out)
                }
                "reset" => {
                    m.reset();
                    Out::None
                }
                "output_bytes" => Out::Val(vec![m.output_bytes() as u8]),
                _ => Out::Bad(format!("harness: unknown mac op {}", op)),
            }
        });
        set_out(ev, o);
    }
}
